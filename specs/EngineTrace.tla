---------------------------- MODULE EngineTrace ----------------------------
(* Trace validation for the engine (C17): executions recorded from the real engine.Engine     *)
(* (hook events emitted in the loop goroutine under build tag verif, observer callbacks, and   *)
(* client-side invoke/return events, all ordered by one sequence counter) must be behaviours   *)
(* of Engine.  Every recorded line is consumed by exactly one spec action with its logged      *)
(* fields bound; `reset` lines separate independent executions in one file.                   *)
(*                                                                                          *)
(* Clients use the permissive bookkeeping (Pipelined = TRUE): after a channel rendezvous the   *)
(* loop's hook and the client's `return` line race for the sequence counter, so a rendezvous   *)
(* call may be logged as returned before the loop's receive is logged.  Update calls are not   *)
(* affected: their reply is logged (ackSend) before it is sent.                              *)
EXTENDS Engine, Json

VARIABLES l,          \* next line of the trace
          seenClose   \* watcher id -> close callbacks observed so far
tvars == <<vars, l, seenClose>>

Trace == ndJsonDeserialize("trace.ndjson")
ev == Trace[l]
IsEvent(e) == l <= Len(Trace) /\ Trace[l].ev = e /\ l' = l + 1

TraceInit == Init /\ l = 1 /\ seenClose = <<>>

Quiescent == /\ lpc = "select" /\ \A c \in Clients : out[c] = <<>> /\ calls[c] = <<>>
             /\ \A w \in DOMAIN closed : (w \in DOMAIN seenClose /\ seenClose[w] = closed[w]) \/ closed[w] = 0
\* a new execution starts: the previous one must be complete
TReset == /\ IsEvent("reset") /\ Quiescent
          /\ db' = 0 /\ vals' = <<0>> /\ lpc' = "select" /\ lreq' = None /\ pending' = {} /\ watchers' = {}
          /\ wkind' = <<>> /\ subAt' = <<>> /\ delivered' = <<>> /\ closed' = <<>> /\ closedErr' = <<>>
          /\ out' = [c \in Clients |-> <<>>] /\ acked' = [c \in Clients |-> 0]
          /\ calls' = [c \in Clients |-> <<>>] /\ nops' = [c \in Clients |-> 0] /\ acks' = <<>>
          /\ seenClose' = <<>>

SC == UNCHANGED seenClose
TInvoke == /\ IsEvent("invoke") /\ SC
           /\ \/ ev.op = "update"  /\ IssueUpdate(ev.c, ev.ok, ev.inc)
              \/ ev.op = "observe" /\ IssueObserve(ev.c, ev.w, ev.kind)
              \/ ev.op = "cancel"  /\ IssueCancel(ev.c, ev.w)
              \/ ev.op = "hangup"  /\ IssueHangup(ev.c)
\* an update returns an error exactly when its expression was invalid
TReturn == /\ IsEvent("return") /\ SC /\ Return(ev.c)
           /\ Head(calls[ev.c]).op = ev.op
           /\ (ev.op = "update" => ev.err = ~Head(calls[ev.c]).ok)
TRecvUpdate == IsEvent("recvUpdate") /\ SC /\ \E c \in Clients : RecvUpdate(c)
TAckSend == IsEvent("ackSend") /\ SC /\ AckSend /\ lreq.ok = ev.ok
TInstall == IsEvent("install") /\ SC /\ Install
TRecvAdd == IsEvent("recvAdd") /\ SC /\ \E c \in Clients : RecvObserve(c) /\ Head(out[c]).w = ev.w
TRecvRemove == /\ IsEvent("recvRemove") /\ SC
               /\ \E c \in Clients : RecvCancel(c) /\ Head(out[c]).w = ev.w
               /\ ev.found = (ev.w \in watchers)
THangup == IsEvent("hangup") /\ SC /\ \E c \in Clients : RecvHangup(c)

VisitOf(w) == (lpc = "notify" /\ Notify(w)) \/ (lpc = "adding" /\ lreq.w = w /\ AddDeliver)
\* the callback was handed the value of the observer's expression on state ev.db
TDeliver == /\ IsEvent("deliver") /\ SC /\ VisitOf(ev.w)
            /\ Len(delivered'[ev.w]) = Len(delivered[ev.w]) + 1
            /\ vals[delivered'[ev.w][Len(delivered'[ev.w])] + 1] = ev.db     \* the payload of that state
Bump(w) == seenClose' = Ext(seenClose, w, IF w \in DOMAIN seenClose THEN seenClose[w] + 1 ELSE 1)
\* close with an error: the observer's expression failed on the current state
TCloseErr == /\ IsEvent("close") /\ ev.err /\ VisitOf(ev.w) /\ Bump(ev.w)
             /\ closed'[ev.w] = closed[ev.w] + 1 /\ closedErr'[ev.w]
             /\ delivered'[ev.w] = delivered[ev.w]
\* close without error: hangup visits the watcher, or the callback that follows a cancel / a failed callback
TClose == /\ IsEvent("close") /\ ~ev.err /\ Bump(ev.w)
          /\ IF lpc = "hanging"
             THEN CloseOne(ev.w)
             ELSE /\ UNCHANGED vars
                  /\ ev.w \in DOMAIN closed /\ ~closedErr[ev.w]
                  /\ seenClose'[ev.w] <= closed[ev.w]

TraceNext == TReset \/ TInvoke \/ TReturn \/ TRecvUpdate \/ TAckSend \/ TInstall \/ TRecvAdd
             \/ TRecvRemove \/ THangup \/ TDeliver \/ TCloseErr \/ TClose
TraceSpec == TraceInit /\ [][TraceNext]_tvars

\* every safety property of Engine is evaluated in every state of every recorded execution
TraceInv == TypeOK /\ NoWedge /\ DeliveredExactly /\ CloseAtMostOnce /\ ClosedMeansGone /\ InAckOrder

TraceAccepted ==
  LET d == TLCGet("stats").diameter IN
  IF d - 1 = Len(Trace) THEN TRUE
  ELSE Print(<<"TRACE-REJECTED at line", d, Trace[d]>>, FALSE)
=============================================================================
