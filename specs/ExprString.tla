----------------------------- MODULE ExprString -----------------------------
(* Beyond the listed properties: the whitespace rules of expression strings ($"...") as the      *)
(* language documentation states them (docs/docs/lang/exprstr.md):                              *)
(*   1 a newline right after the opening quote is dropped                                        *)
(*   2 the leading whitespace of the first line is the base indent; it is removed there and        *)
(*     wherever it follows a newline                                                           *)
(*   3 a final newline followed only by whitespace is dropped                                    *)
(*   4 a line whose only content (after indent removal) is an embedded expression that formats     *)
(*     to nothing is omitted, newline included                                                  *)
(*   5 ${e::sep} formats an array element-wise with sep between; \i in sep is a newline plus the    *)
(*     whitespace that precedes the expression on its line; ${e:::extra} appends extra unless       *)
(*     the result is empty                                                                    *)
(* A template is a sequence of lines; a line is an indent (number of spaces) and a sequence of     *)
(* items: text, or an embedded expression of one of a few shapes.  Render is the documented         *)
(* meaning; TLC emits every template with its rendering and the harness compares it with what       *)
(* the real compiler and //str.expand produce.                                                 *)
EXTENDS Integers, Sequences, FiniteSets, SequencesExt, TLC, Json

CONSTANTS MaxLines
VARIABLES tmpl, done
vars == <<tmpl, done>>

\* items: "a" | "b" (text) | embedded expressions: "E" empty string, "X" the string X,
\* "L" the array [1,2] with sep \i, "Z" the empty array with sep \i, "C" [1,2] with sep "," and extra ";"
TextItems == {"a", "b"}
ExprItems == {"E", "X", "L", "Z", "C"}
Items == TextItems \cup ExprItems
Line(ind, its) == [ind |-> ind, its |-> its]
Empties == {"E", "Z"}
\* a line of several expressions that all format to nothing is left out: the rules do not say what
\* becomes of its indentation
Lines == {Line(i, its) : i \in {0, 2, 4},
                        its \in {q \in UNION {[1..n -> Items] : n \in 0..2} :
                                  /\ ~(Len(q) = 2 /\ q[1] \in Empties /\ q[2] \in Empties)
                                  /\ ~(Len(q) = 2 /\ q[2] \in {"L", "Z"})}}       \* \i only where the rule defines its indent

Spaces(n) == [i \in 1..n |-> " "]
\* what an embedded expression formats to, given the whitespace before it on its line
Fmt(e, lead) == CASE e = "E" -> <<>> [] e = "X" -> <<"X">> [] e = "Z" -> <<>>
                  [] e = "L" -> <<"1", "\n">> \o Spaces(lead) \o <<"2">>
                  [] OTHER -> <<"1", ",", "2", ";">>
\* the characters of one line after base-indent removal, or "omitted" (rule 4)
Omitted == <<"-omitted-">>
\* \i uses the whitespace immediately before the expression back to the start of the line: only an
\* expression that is the first thing on its line has any
RECURSIVE RenderItems(_, _)
RenderItems(its, lead) == IF its = <<>> THEN <<>>
                          ELSE (IF Head(its) \in TextItems THEN <<Head(its)>> ELSE Fmt(Head(its), lead)) \o RenderItems(Tail(its), 0)
RenderLine(l, base) ==
  LET ind == IF l.ind >= base THEN l.ind - base ELSE l.ind IN
  IF Len(l.its) = 1 /\ l.its[1] \in ExprItems /\ Fmt(l.its[1], ind) = <<>> THEN Omitted
  ELSE Spaces(ind) \o RenderItems(l.its, ind)
\* The rules apply in the order given: the final newline goes first (rule 3), so every line but the
\* last owns the newline that follows it, and an omitted line (rule 4) takes its own newline with it.
RECURSIVE Concat(_, _)
Concat(rs, i) == IF i > Len(rs) THEN <<>>
                 ELSE (IF rs[i] = Omitted THEN <<>> ELSE rs[i] \o (IF i < Len(rs) THEN <<"\n">> ELSE <<>>)) \o Concat(rs, i + 1)
Render(t) == LET base == t[1].ind IN Concat([i \in DOMAIN t |-> RenderLine(t[i], base)], 1)

\* templates end with the closing quote on a line of its own (rule 3 removes that line)
Init == tmpl \in UNION {[1..n -> Lines] : n \in 1..MaxLines} /\ done = FALSE
Emit == ~done /\ done' = TRUE /\ UNCHANGED tmpl
        /\ PrintT(ToJson([spec |-> "ExprString", lines |-> tmpl, out |-> Render(tmpl)]))
Next == Emit
Spec == Init /\ [][Next]_vars
Sane == \A i \in DOMAIN tmpl : tmpl[i].ind \in {0, 2, 4}
=============================================================================
