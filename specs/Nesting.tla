------------------------------- MODULE Nesting -------------------------------
(* C02, structural near-misses: values that differ only in how their members are nested.  For a   *)
(* collection c the family {c, {c}, c + {{}}, {c, {}}, {{c}}, {c + {{}}}} consists of pairwise      *)
(* different values whose members hash alike when a container's hash is a plain combination of its  *)
(* members' hashes (the trie library takes equal hashes for equal values) - the shape of the        *)
(* collisions found at the pinned commit ({{{}, (@: 0, @item: 1)}} = {{[1]}} was true).  TLC checks  *)
(* that the family members really differ and emits every ordered pair; the harness observes them   *)
(* at every observation point of C02 in every pair of recipes.                                   *)
EXTENDS MC_SetAlgebra

VARIABLES a, b, fin
nvars == <<a, b, fin, env, prog, done>>

Colls == {S(x) : x \in {y \in SUBSET PoolQuick : Cardinality(y) \in 1..2}}
Empty == S({})
Family(c) == {c, S({c}), S(c.s \cup {Empty}), S({c, Empty}), S({S({c})}), S({S(c.s \cup {Empty})})}

NInit == /\ \E c \in Colls : a \in Family(c) /\ b \in Family(c) /\ a # b
         /\ fin = FALSE /\ env = <<>> /\ prog = <<>> /\ done = FALSE
NEmit == ~fin /\ fin' = TRUE /\ UNCHANGED <<a, b, env, prog, done>> /\ PrintT(ToJson([spec |-> "Nesting", a |-> a, b |-> b]))
NSpec == NInit /\ [][NEmit]_nvars
Differ == a # b
=============================================================================
