----------------------------- MODULE SharedLazy -----------------------------
(* Property C11: values and compiled expressions may be used from many goroutines at once; every  *)
(* evaluation returns what it would have returned alone, and no two of them make unsynchronised   *)
(* conflicting accesses to arr.ai's own memory.                                                *)
(*                                                                                          *)
(* Shared objects carry lazily computed state (a tuple's ordered-names / names / bucket caches,    *)
(* a relation's group-by index, the process-wide library scopes, the import cache's entries, the   *)
(* stdin reader's buffer, the variables captured by callbacks the trie library runs in parallel).  *)
(* Each goroutine performs one first-use operation on one object; an operation is the protocol     *)
(* the code follows for that object's class:                                                   *)
(*   once   sync.Once: an atomic done flag, then a mutex; the winner computes and publishes        *)
(*   mutex  every access takes the object's mutex (the single-flight import cache included)        *)
(*   none   check the cell, compute if empty, store - with nothing in between (the named           *)
(*          deviation: TLC must reject it)                                                     *)
(* Memory accesses are split into begin/end so that two overlapping accesses to one cell, one of   *)
(* them a write, with no lock held by both, is the state predicate Race.  TLC checks NoRace,       *)
(* ComputeAtMostOnce, NoReadBeforePublish and SerialEquivalence over every interleaving of every   *)
(* scenario (an assignment of operations to goroutines), and emits each scenario once; the         *)
(* harness, built with the race detector and with the trie library's fan-out threshold lowered,    *)
(* runs it on fresh shared values with all goroutines released together, compares every result     *)
(* with the serial one and reads the race detector's log.                                       *)
EXTENDS Naturals, Sequences, FiniteSets, TLC, Json

CONSTANTS G,         \* number of goroutines
          Ops,       \* the operations a scenario may assign
          NoneDisc   \* object classes that (as a deviation) use no synchronisation

VARIABLES op, pc, cell, lock, acc, computes, result, done
vars == <<op, pc, cell, lock, acc, computes, result, done>>

Gs == 1..G
AllOps == {"tuple.print", "tuple.inset", "tuple.get", "tuple.map", "tuple.equal",
           "rel.join", "rel.nest", "rel.where", "rel.map", "rel.orderby", "rel.rank",
           "set.where", "set.map", "set.union", "set.count",
           "expr.eval", "scope.std", "scope.safe", "stdin.read", "import.file"}
ClassOf(o) == CASE o \in {"tuple.print", "tuple.inset", "tuple.get", "tuple.map", "tuple.equal"} -> "tuple"
                [] o \in {"rel.join", "rel.nest", "rel.where", "rel.map", "rel.orderby", "rel.rank"} -> "relation"
                [] o \in {"set.where", "set.map", "set.union", "set.count"} -> "bigset"
                [] o = "expr.eval" -> "expr" [] o \in {"scope.std", "scope.safe"} -> "scope"
                [] o = "stdin.read" -> "stdin" [] OTHER -> "import"
Classes == {"tuple", "relation", "bigset", "expr", "scope", "stdin", "import"}
Disc(c) == IF c \in NoneDisc THEN "none"
           ELSE CASE c \in {"tuple", "scope", "expr"} -> "once" [] OTHER -> "mutex"
Obj(g) == ClassOf(op[g])
NoG == 0

Init == /\ op \in [Gs -> Ops]
        /\ pc = [g \in Gs |-> "idle"] /\ cell = [c \in Classes |-> "empty"] /\ lock = [c \in Classes |-> NoG]
        /\ acc = {} /\ computes = [c \in Classes |-> 0] /\ result = [g \in Gs |-> "none"] /\ done = FALSE

Set(g, p) == pc' = [pc EXCEPT ![g] = p]
Access(g, k) == [g |-> g, o |-> Obj(g), k |-> k]
Keep(vs) == UNCHANGED vs

Start(g) == pc[g] = "idle" /\ done /\ Set(g, "try") /\ Keep(<<op, cell, lock, acc, computes, result, done>>)
\* --- once / mutex -------------------------------------------------------------------------------
\* sync.Once's fast path: the done flag is read atomically; seeing it set orders the read after the publish
FastPath(g) == /\ pc[g] = "try" /\ Disc(Obj(g)) = "once" /\ cell[Obj(g)] = "ready"
               /\ Set(g, "rbegin") /\ Keep(<<op, cell, lock, acc, computes, result, done>>)
Acquire(g) == /\ pc[g] = "try" /\ Disc(Obj(g)) # "none" /\ lock[Obj(g)] = NoG
              /\ (Disc(Obj(g)) = "once" => cell[Obj(g)] = "empty")
              /\ lock' = [lock EXCEPT ![Obj(g)] = g] /\ Set(g, "locked")
              /\ Keep(<<op, cell, acc, computes, result, done>>)
LockedCheck(g) == /\ pc[g] = "locked"
                  /\ Set(g, IF cell[Obj(g)] = "ready" THEN "lockedread" ELSE "wbegin")
                  /\ Keep(<<op, cell, lock, acc, computes, result, done>>)
\* --- none -----------------------------------------------------------------------------------------
CheckBegin(g) == /\ pc[g] = "try" /\ Disc(Obj(g)) = "none" /\ acc' = acc \cup {Access(g, "r")} /\ Set(g, "chk")
                 /\ Keep(<<op, cell, lock, computes, result, done>>)
CheckEnd(g) == /\ pc[g] = "chk" /\ acc' = acc \ {Access(g, "r")}
               /\ Set(g, IF cell[Obj(g)] = "ready" THEN "rbegin" ELSE "wbegin")
               /\ Keep(<<op, cell, lock, computes, result, done>>)
\* --- compute and publish ----------------------------------------------------------------------------
WBegin(g) == /\ pc[g] = "wbegin" /\ acc' = acc \cup {Access(g, "w")} /\ Set(g, "wend")
             /\ computes' = [computes EXCEPT ![Obj(g)] = @ + 1] /\ Keep(<<op, cell, lock, result, done>>)
WEnd(g) == /\ pc[g] = "wend" /\ acc' = acc \ {Access(g, "w")} /\ cell' = [cell EXCEPT ![Obj(g)] = "ready"]
           /\ Set(g, IF lock[Obj(g)] = g THEN "lockedread" ELSE "rbegin")
           /\ Keep(<<op, lock, computes, result, done>>)
\* --- read the published state ------------------------------------------------------------------------
LockedRead(g) == /\ pc[g] = "lockedread" /\ result' = [result EXCEPT ![g] = cell[Obj(g)]]
                 /\ lock' = [lock EXCEPT ![Obj(g)] = NoG] /\ Set(g, "fin")
                 /\ Keep(<<op, cell, acc, computes, done>>)
RBegin(g) == /\ pc[g] = "rbegin" /\ acc' = acc \cup {Access(g, "r")} /\ Set(g, "rend")
             /\ Keep(<<op, cell, lock, computes, result, done>>)
REnd(g) == /\ pc[g] = "rend" /\ acc' = acc \ {Access(g, "r")} /\ result' = [result EXCEPT ![g] = cell[Obj(g)]]
           /\ Set(g, "fin") /\ Keep(<<op, cell, lock, computes, done>>)

Emit == /\ ~done /\ done' = TRUE /\ Keep(<<op, pc, cell, lock, acc, computes, result>>)
        /\ PrintT(ToJson([spec |-> "SharedLazy", ops |-> op]))
Step(g) == Start(g) \/ FastPath(g) \/ Acquire(g) \/ LockedCheck(g) \/ CheckBegin(g) \/ CheckEnd(g)
           \/ WBegin(g) \/ WEnd(g) \/ LockedRead(g) \/ RBegin(g) \/ REnd(g)
Next == Emit \/ \E g \in Gs : Step(g)
Spec == Init /\ [][Next]_vars /\ WF_vars(Next)

\* ---- properties ------------------------------------------------------------------------------
Race == \E a, b \in acc : a.g # b.g /\ a.o = b.o /\ "w" \in {a.k, b.k}
NoRace == ~Race
ComputeAtMostOnce == \A c \in Classes : computes[c] <= 1
NoReadBeforePublish == \A g \in Gs : pc[g] = "rend" => cell[Obj(g)] = "ready"
SerialEquivalence == \A g \in Gs : pc[g] = "fin" => result[g] = "ready"
AllFinish == <>(\A g \in Gs : pc[g] = "fin")
=============================================================================
