SPECIFICATION Spec
CONSTANTS Mode = "bin"
  MaxToks = 1
  LibArity = 1
  Small = FALSE
INVARIANTS Total
CHECK_DEADLOCK FALSE
