------------------------------- MODULE Bundle -------------------------------
(* Property C15: `arrai bundle` followed by running the .arraiz yields what running the script  *)
(* from its source tree yields, and the bundle needs nothing outside the archive.              *)
(*                                                                                          *)
(* The state is a module layout under construction: which directories of a small tree carry a   *)
(* go.mod sentinel (none, one, two nested or side by side), where the main file sits, and an    *)
(* import graph added one edge at a time.  An edge has a form - relative (./p) or module-rooted  *)
(* (/p) - a target (a script, a JSON data file, an empty data file, or a file that does not      *)
(* exist) and a decoder (none, explicit json, explicit bytes).                                 *)
(*                                                                                          *)
(* Two path maps are specified: HostResolve / HostRoot (how the compiler finds a file on the     *)
(* host while bundling) and ArchDir (where the bundler stores it: /module/<mod>/<rel> or         *)
(* /unnamed/<rel>), and the runtime's own derivation RuntimeRoot / RuntimeResolve, which sees    *)
(* only the archive.  TLC checks on every state that the diagram commutes (Commutes), that the   *)
(* archive holds every file the evaluation needs (Complete) and nothing from outside the main    *)
(* root (Inside).  The deviation found at the pinned commit - the sentinel of a module nested    *)
(* below a main file that has no module of its own is stored under /module instead of /unnamed   *)
(* - is the named switch AsIs, which TLC must reject.  Every state is emitted and replayed:       *)
(* the tree is written out, the main file is evaluated from source and through a bundle from      *)
(* several working directories and path spellings, and the archive's entries are compared with   *)
(* Archive.                                                                                  *)
EXTENDS Naturals, Sequences, FiniteSets, SequencesExt, TLC, Json

CONSTANTS MaxEdges,   \* imports in the whole graph
          Wide,       \* TRUE: all sentinel placements and main positions; FALSE: a representative slice
          AsIs        \* subset of {"NestedSentinelUnderModule"}

VARIABLES sent, mainf, edges, done
vars == <<sent, mainf, edges, done>>

None == <<"-none-">>
Dirs == {<<>>, <<"a">>, <<"a", "b">>, <<"c">>}
Mod == [d \in Dirs |-> CASE d = <<>> -> "ex.com/top" [] d = <<"a">> -> "ex.com/mid" [] d = <<"a", "b">> -> "ex.com/low" [] OTHER -> "ex.com/side"]

F(d, n) == [d |-> d, n |-> n]
Scripts == {F(d, n) : d \in Dirs, n \in {"x.arrai", "y.arrai"}}
JsonFiles == {F(d, "d.json") : d \in Dirs}
EmptyFiles == {F(<<>>, "e.txt"), F(<<"a">>, "e.txt")}
Ghosts == {F(d, "z.arrai") : d \in {<<>>, <<"a">>}}           \* not on disk
Targets == Scripts \cup JsonFiles \cup EmptyFiles \cup Ghosts
Exists(f) == f \notin Ghosts

Imp(form, t, dec) == [form |-> form, t |-> t, dec |-> dec]

\* ---- the host: where the compiler finds things ----------------------------------------------
\* the nearest directory at or above d that has a sentinel
DirPrefixes(d) == {SubSeq(d, 1, k) : k \in 0..Len(d)}
HostRoot(d) == LET c == {p \in DirPrefixes(d) : p \in sent} IN
               IF c = {} THEN None ELSE CHOOSE p \in c : \A q \in c : Len(q) <= Len(p)
Rel(r, d) == SubSeq(d, Len(r) + 1, Len(d))
\* the directory an import's path is taken from, and whether the path can be written at all
Base(f, form) == IF form = "rel" THEN f.d ELSE HostRoot(f.d)
Writable(f, i) == Base(f, i.form) # None /\ IsPrefix(Base(f, i.form), i.t.d) /\ i.t # f
\* what the source text says after ./ or /
Segs(f, i) == Rel(Base(f, i.form), i.t.d)
HostResolves(f, i) == Base(f, i.form) # None /\ Exists(i.t)

Imports(f) == IF f \notin DOMAIN edges THEN <<>> ELSE edges[f]
RECURSIVE Reach(_)
Reach(fs) == LET next == fs \cup UNION {{Imports(f)[k].t : k \in 1..Len(Imports(f))} : f \in fs \cap Scripts} IN
             IF next = fs THEN fs ELSE Reach(next)
Reachable == Reach({mainf})
RECURSIVE Fails(_)
Fails(f) == \E k \in 1..Len(Imports(f)) :
              LET i == Imports(f)[k] IN ~HostResolves(f, i) \/ (i.t \in Scripts /\ Fails(i.t))
\* the files the value mentions, in evaluation order (an empty file contributes nothing)
RECURSIVE Pre(_)
Pre(f) == IF f \in EmptyFiles THEN <<>>
          ELSE IF f \notin Scripts THEN <<f>>
          ELSE <<f>> \o FoldLeft(LAMBDA acc, i : acc \o Pre(i.t), <<>>, Imports(f))

\* ---- the bundler: where things are stored ----------------------------------------------------
MainRoot == HostRoot(mainf.d)
TopDir == IF MainRoot # None THEN MainRoot ELSE mainf.d      \* everything reachable lies below it
ArchPrefix == IF MainRoot # None THEN <<"module", Mod[MainRoot]>> ELSE <<"unnamed">>
ArchDir(d) == ArchPrefix \o Rel(TopDir, d)
\* sentinels: the main root's, and the root of every module-rooted import's importer
SentinelDirs == (IF MainRoot # None THEN {MainRoot} ELSE {})
                \cup {HostRoot(f.d) : f \in {g \in Reachable \cap Scripts : \E k \in 1..Len(Imports(g)) : Imports(g)[k].form = "root"}}
SentinelArchDir(d) == IF MainRoot = None /\ "NestedSentinelUnderModule" \in AsIs
                      THEN <<"module">> \o Rel(TopDir, d)
                      ELSE ArchDir(d)
Entry(dir, name) == [dir |-> dir, n |-> name]
Archive == {Entry(<<>>, "config.arrai")}
           \cup {Entry(ArchDir(f.d), f.n) : f \in Reachable}
           \cup {Entry(SentinelArchDir(d), "go.mod") : d \in SentinelDirs \ {None}}

\* ---- the runtime: what it derives from the archive alone -------------------------------------
RuntimeRoot(ad) == LET c == {p \in DirPrefixes(ad) : Entry(p, "go.mod") \in Archive} IN
                   IF c = {} THEN None ELSE CHOOSE p \in c : \A q \in c : Len(q) <= Len(p)
RuntimeResolve(ad, form, segs) == IF form = "rel" THEN ad \o segs
                                  ELSE IF RuntimeRoot(ad) = None THEN None ELSE RuntimeRoot(ad) \o segs

\* ---- properties ------------------------------------------------------------------------------
Ok == ~Fails(mainf)
Commutes == Ok => \A f \in Reachable \cap Scripts : \A k \in 1..Len(Imports(f)) :
               LET i == Imports(f)[k] IN
               RuntimeResolve(ArchDir(f.d), i.form, Segs(f, i)) = ArchDir(i.t.d)
Complete == Ok => \A f \in Reachable : Entry(ArchDir(f.d), f.n) \in Archive
Inside == \A f \in Reachable : IsPrefix(TopDir, f.d)

\* ---- universes and the construction ------------------------------------------------------------
SentSets == IF Wide THEN {s \in SUBSET Dirs : Cardinality(s) <= 2}
            ELSE {{}, {<<>>}, {<<"a">>}, {<<>>, <<"a">>}, {<<"a", "b">>}}
Mains == IF Wide THEN Scripts ELSE {F(<<>>, "x.arrai"), F(<<"a">>, "x.arrai"), F(<<"a", "b">>, "y.arrai")}
DecsFor(t) == IF t \in Scripts \cup Ghosts THEN {"none"}
              ELSE IF t \in JsonFiles THEN {"none", "json", "bytes"} ELSE {"bytes", "none"}
\* a module-rooted import written in a file that has no module is kept (it must fail both ways)
NarrowTargets == {F(d, "x.arrai") : d \in Dirs} \cup {F(<<"a">>, "y.arrai"), F(<<"a", "b">>, "y.arrai"), F(<<>>, "d.json"),
                   F(<<"a", "b">>, "d.json"), F(<<"a">>, "e.txt"), F(<<"a">>, "z.arrai")}
Candidates(f) == {Imp(form, t, dec) : form \in {"rel", "root"}, t \in (IF Wide THEN Targets ELSE NarrowTargets), dec \in {"none", "json", "bytes"}}
Allowed(f, i) == /\ i.dec \in DecsFor(i.t)
                 /\ \/ Writable(f, i)
                    \/ (i.form = "root" /\ HostRoot(f.d) = None /\ IsPrefix(f.d, i.t.d) /\ i.t # f)
                 /\ (i.t \in Scripts => f \notin Reach({i.t}))           \* no cycles (C16 covers them)
NEdges == LET fs == DOMAIN edges IN FoldSet(LAMBDA f, acc : acc + Len(edges[f]), 0, fs)

Init == sent \in SentSets /\ mainf \in Mains /\ edges = <<>> /\ done = FALSE
AddEdge == /\ ~done /\ NEdges < MaxEdges /\ UNCHANGED <<sent, mainf, done>>
           /\ \E f \in Reachable \cap Scripts : \E i \in Candidates(f) :
                /\ Len(Imports(f)) < 2 /\ Allowed(f, i)
                /\ edges' = [g \in DOMAIN edges \cup {f} |-> IF g = f THEN Append(Imports(f), i) ELSE edges[g]]
EdgeList == {[f |-> f, imps |-> edges[f]] : f \in DOMAIN edges}
Emit == /\ ~done /\ done' = TRUE /\ UNCHANGED <<sent, mainf, edges>>
        /\ PrintT(ToJson([spec |-> "Bundle", sent |-> sent, main |-> mainf, edges |-> EdgeList,
                          ok |-> Ok, pre |-> IF Ok THEN Pre(mainf) ELSE <<>>,
                          mainroot |-> MainRoot, mod |-> IF MainRoot # None THEN Mod[MainRoot] ELSE "",
                          archive |-> IF Ok THEN Archive ELSE {}]))
Next == AddEdge \/ Emit
Spec == Init /\ [][Next]_vars
=============================================================================
