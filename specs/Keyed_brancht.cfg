SPECIFICATION Spec
CONSTANTS
  Kinds = {"str", "arr", "bytes"}
  MaxLit = 2
  Depth = 2
  Steps = {"cat", "shift"}
  SmallIdx = TRUE
INVARIANTS TypeOK Laws
PROPERTIES AppendOnly
CHECK_DEADLOCK FALSE
