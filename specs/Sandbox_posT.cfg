SPECIFICATION Spec
CONSTANTS Mode = "posT"
  Steps = 2
  AsIs = {}
INVARIANTS Confined SafeClean UngrantedFails
CHECK_DEADLOCK FALSE
