SPECIFICATION Spec
CONSTANTS Mode = "collections"
INVARIANTS Preserved
CHECK_DEADLOCK FALSE
