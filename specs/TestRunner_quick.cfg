SPECIFICATION SpecQ
INVARIANTS AddsUp PassIffAllTrue
CHECK_DEADLOCK FALSE
