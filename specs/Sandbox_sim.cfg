SPECIFICATION Spec
CONSTANTS Mode = "sim"
  Steps = 4
  AsIs = {}
INVARIANTS Confined SafeClean UngrantedFails
CHECK_DEADLOCK FALSE
