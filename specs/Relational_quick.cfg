SPECIFICATION Spec
CONSTANTS
  AttrNames = {"a", "b", "at", "it"}
  MaxAttrs = 2
  MaxRows = 3
  Depth = 0
  Fork = FALSE
INVARIANTS TypeOK Laws
CHECK_DEADLOCK FALSE
