SPECIFICATION Spec
CONSTANTS
  AttrNames = {"a", "b", "at", "it"}
  MaxAttrs = 2
  MaxRows = 2
  Depth = 0
INVARIANTS TypeOK Laws
CHECK_DEADLOCK FALSE
