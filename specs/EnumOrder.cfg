SPECIFICATION Spec
CONSTANTS N = 4
  Naive = {}
INVARIANTS OrderFree ExemptIsReal
CHECK_DEADLOCK FALSE
