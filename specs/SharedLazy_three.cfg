SPECIFICATION Spec
CONSTANTS G = 3
  Ops = {"tuple.print", "tuple.inset", "rel.join", "rel.nest", "set.where", "expr.eval", "scope.std", "stdin.read", "import.file"}
  NoneDisc = {}
INVARIANTS NoRace ComputeAtMostOnce NoReadBeforePublish SerialEquivalence
CHECK_DEADLOCK FALSE
