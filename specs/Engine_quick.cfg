SPECIFICATION Spec
CONSTANTS
  Clients = {"c1", "c2"}
  MaxOps = 2
  MaxWatchers = 2
  FailAt = 1
  Pipelined = FALSE
  AsIs = FALSE
INVARIANTS TypeOK NoWedge DeliveredExactly CloseAtMostOnce ClosedMeansGone InAckOrder
PROPERTIES EveryCallReturns
CHECK_DEADLOCK FALSE
