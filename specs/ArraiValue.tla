----------------------------- MODULE ArraiValue -----------------------------
(* The arr.ai value universe as TLA+ values.  There are exactly three kinds of value:       *)
(* numbers, tuples and sets.  Strings, arrays, byte arrays, dictionaries, relations and     *)
(* booleans are NOT separate kinds: each is *defined* as the set of tuples it denotes.       *)
(* Values are tagged records so that heterogeneous values can live in one TLA+ set and      *)
(* print cleanly with ToJson.  Inside the specs the @-attributes are spelled                 *)
(*    at = @   ch = @char   it = @item   by = @byte   va = @value                            *)
EXTENDS Integers, FiniteSets, Sequences, TLC, Json

N(k) == [n |-> k]                  \* the integer k
H(k) == [h |-> k]                  \* the number k + 1/2 (a non-integer)
T(f) == [t |-> f]                  \* tuple: f maps attribute names (strings) to values
S(x) == [s |-> x]                  \* set of values
Err  == [err |-> TRUE]             \* "evaluation is an error" (never a member of a value)

IsNum(v) == "n" \in DOMAIN v \/ "h" \in DOMAIN v
IsInt(v) == "n" \in DOMAIN v
IsTup(v) == "t" \in DOMAIN v
IsSet(v) == "s" \in DOMAIN v
IsErr(v) == "err" \in DOMAIN v

EmptyT == T(<<>>)
TrueV  == S({EmptyT})
FalseV == S({})
Bool(b) == IF b THEN TrueV ELSE FalseV

Attrs(t) == DOMAIN t.t
Mk1(a, v)        == T([x \in {a} |-> v])
Mk2(a, v, b, w)  == T([x \in {a, b} |-> IF x = a THEN v ELSE w])

\* sugar tuples and the collections built from them -----------------------------------------
Chr(i, c) == T([at |-> N(i), ch |-> N(c)])     \* (@: i, @char: c)
Itm(i, v) == T([at |-> N(i), it |-> v])        \* (@: i, @item: v)
Byt(i, b) == T([at |-> N(i), by |-> N(b)])     \* (@: i, @byte: b)
Ent(k, v) == T([at |-> k,    va |-> v])        \* (@: k, @value: v)

Hole == [hole |-> TRUE]
Str(q, off)   == S({Chr(off + i - 1, q[i]) : i \in DOMAIN q})
Bytes(q, off) == S({Byt(off + i - 1, q[i]) : i \in DOMAIN q})
Arr(q, off)   == S({Itm(off + i - 1, q[i]) : i \in {j \in DOMAIN q : q[j] # Hole}})
Dict(f)       == S({Ent(k, f[k]) : k \in DOMAIN f})

\* set algebra: the operators ARE the mathematical ones -------------------------------------
Union(a, b)   == S(a.s \cup b.s)
Inter(a, b)   == S(a.s \cap b.s)
Diff(a, b)    == S(a.s \ b.s)
SymDiff(a, b) == S((a.s \ b.s) \cup (b.s \ a.s))
With(a, e)    == S(a.s \cup {e})
Without(a, e) == S(a.s \ {e})
Member(e, a)  == e \in a.s
Count(a)      == Cardinality(a.s)
Pow(a)        == S({S(x) : x \in SUBSET a.s})
Where(a, P(_)) == S({x \in a.s : P(x)})
Map(a, F(_))   == S({F(x) : x \in a.s})
SubsetEq(a, b)   == a.s \subseteq b.s
SubsetNeq(a, b)  == a.s \subseteq b.s /\ a.s # b.s

\* tuples -------------------------------------------------------------------------------
RestrictT(t, names) == T([a \in names |-> t.t[a]])
Agree(t, u)  == \A a \in Attrs(t) \cap Attrs(u) : t.t[a] = u.t[a]
MergeT(t, u) == T([a \in Attrs(t) \cup Attrs(u) |-> IF a \in Attrs(t) THEN t.t[a] ELSE u.t[a]])
\* +> on tuples: right wins
MergeR(t, u) == T([a \in Attrs(t) \cup Attrs(u) |-> IF a \in Attrs(u) THEN u.t[a] ELSE t.t[a]])

\* relations ----------------------------------------------------------------------------
Heading(A) == IF A.s = {} THEN {} ELSE Attrs(CHOOSE t \in A.s : TRUE)
IsRel(A)   == IsSet(A) /\ \A t \in A.s : IsTup(t) /\ Attrs(t) = Heading(A)
Join(A, B) == S({MergeT(p[1], p[2]) : p \in {q \in A.s \X B.s : Agree(q[1], q[2])}})
Project(A, names) == S({RestrictT(t, names) : t \in A.s})
JoinOp(op, A, B) ==
  LET x == Heading(A) \ Heading(B)
      y == Heading(A) \cap Heading(B)
      z == Heading(B) \ Heading(A)
      J == Join(A, B) IN
  IF A.s = {} \/ B.s = {} THEN S({}) ELSE
  CASE op = "<&>" -> J
    [] op = "<->" -> Project(J, x \cup z)
    [] op = "-&-" -> Project(J, y)
    [] op = "---" -> IF J.s = {} THEN S({}) ELSE TrueV
    [] op = "-&>" -> Project(J, y \cup z)
    [] op = "<&-" -> Project(J, x \cup y)
    [] op = "-->" -> Project(J, z)
    [] op = "<--" -> Project(J, x)
Nest(A, attrs, n) == LET key == Heading(A) \ attrs IN
  S({ T([a \in key \cup {n} |->
          IF a = n THEN S({RestrictT(u, attrs) : u \in {u \in A.s : RestrictT(u, key) = k}})
                   ELSE k.t[a]])
      : k \in {RestrictT(t, key) : t \in A.s} })
Unnest(A, n) == S(UNION { {MergeT(RestrictT(t, Attrs(t) \ {n}), u) : u \in t.t[n].s} : t \in A.s })

\* keyed collections: any set of 2-attribute tuples one of which is @ --------------------------
At(t)      == t.t["at"]
ValAttr(t) == CHOOSE a \in Attrs(t) : a # "at"
Val(t)     == t.t[ValAttr(t)]
IsKeyed(c) == IsSet(c) /\ \A t \in c.s : IsTup(t) /\ "at" \in Attrs(t) /\ Cardinality(Attrs(t)) = 2
Hits(c, k) == {Val(t) : t \in {t \in c.s : At(t) = k}}
Call(c, k)      == IF Cardinality(Hits(c, k)) = 1 THEN CHOOSE v \in Hits(c, k) : TRUE ELSE Err
CallOr(c, k, d) == IF Hits(c, k) = {} THEN d ELSE Call(c, k)
ShiftT(t, d)    == T([a \in Attrs(t) |-> IF a = "at" THEN N(At(t).n + d) ELSE t.t[a]])
Shift(c, d)     == S({ShiftT(t, d) : t \in c.s})
Concat(a, b)    == S(a.s \cup Shift(b, Cardinality(a.s)).s)
SeqMap(c, F(_)) == S({T([a \in Attrs(t) |-> IF a = "at" THEN At(t) ELSE F(t.t[a])]) : t \in c.s})
SeqMap2(c, F(_, _)) == S({T([a \in Attrs(t) |-> IF a = "at" THEN At(t) ELSE F(At(t), t.t[a])]) : t \in c.s})

\* shape predicates used to name input classes --------------------------------------------
SugarKinds == {"ch", "it", "by", "va"}
IsSugarT(t) == IsTup(t) /\ "at" \in Attrs(t) /\ Cardinality(Attrs(t)) = 2 /\ ValAttr(t) \in SugarKinds
\* two sugar tuples of one kind at one index/key: no specialised representation can hold them
Superimposed(a) == \E t, u \in a.s : t # u /\ IsSugarT(t) /\ IsSugarT(u) /\ ValAttr(t) = ValAttr(u) /\ At(t) = At(u)
=============================================================================
