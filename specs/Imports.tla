------------------------------- MODULE Imports -------------------------------
(* Property C16 (paths and graphs).  A local import is //{./p} (relative to the importing      *)
(* script's directory) or //{/p} (relative to the module root, the nearest ancestor holding   *)
(* the go.mod sentinel).  Resolution is LEXICAL: "." and empty segments vanish, ".." removes   *)
(* the previous segment.  A relative path that climbs above its own directory is rejected; a   *)
(* rooted path clamps at the root.  Whatever the spelling, the file that is read lies beneath  *)
(* the root (module) or beneath the importer's own directory (no module).                    *)
(*                                                                                          *)
(* The second half enumerates import GRAPHS: acyclic graphs evaluate, cyclic ones must end in  *)
(* an error (never hang).                                                                    *)
EXTENDS Integers, Sequences, SequencesExt, FiniteSets, TLC, Json

CONSTANTS Segs,        \* path segment ids: "up" (..), "dot" (.), "nil" (empty), names, padded names
          MaxSegs,
          NFiles       \* number of files in import graphs

VARIABLES case, done
vars == <<case, done>>

Root == <<"m">>
ImporterDirs == {<<"m">>, <<"m", "d">>, <<"m", "d", "e">>}
Names == Segs \ {"up", "dot", "nil"}

RECURSIVE Walk(_, _)
\* lexical cleaning relative to a starting point; "ESC" marks a climb above the start
Walk(stack, segs) ==
  IF segs = <<>> THEN stack
  ELSE LET s == Head(segs)  rest == Tail(segs) IN
       IF stack = <<"ESC">> THEN stack
       ELSE IF s \in {"dot", "nil"} THEN Walk(stack, rest)
       ELSE IF s = "up" THEN (IF stack = <<>> THEN <<"ESC">> ELSE Walk(SubSeq(stack, 1, Len(stack) - 1), rest))
       ELSE Walk(Append(stack, s), rest)
RECURSIVE WalkClamp(_, _)
WalkClamp(stack, segs) ==
  IF segs = <<>> THEN stack
  ELSE LET s == Head(segs)  rest == Tail(segs) IN
       IF s \in {"dot", "nil"} THEN WalkClamp(stack, rest)
       ELSE IF s = "up" THEN WalkClamp(IF stack = <<>> THEN <<>> ELSE SubSeq(stack, 1, Len(stack) - 1), rest)
       ELSE WalkClamp(Append(stack, s), rest)

\* the absolute location (directory segments ++ file name) the import denotes, or Reject
Reject == <<"REJECT">>
Resolve(form, dir, segs, hasModule) ==
  IF form = "rel"
  THEN LET w == Walk(<<>>, segs) IN IF w = <<"ESC">> THEN Reject ELSE dir \o w
  ELSE IF ~hasModule THEN Reject                        \* no sentinel above: a rooted import is an error
  ELSE Root \o WalkClamp(<<>>, segs)

Base(form, dir, hasModule) == IF hasModule THEN Root ELSE dir
\* the design property: nothing outside the base can be named
Confined(form, dir, segs, hasModule) ==
  LET r == Resolve(form, dir, segs, hasModule) IN r # Reject => IsPrefix(Base(form, dir, hasModule), r)

PathSeqs == UNION {[1..k -> Segs] : k \in 1..MaxSegs}

\* ---- import graphs -------------------------------------------------------------------------
Files == 1..NFiles
Graphs == [Files -> SUBSET Files]             \* file i imports the files in g[i]
RECURSIVE ReachN(_, _, _)
ReachN(g, S, n) == IF n = 0 THEN S ELSE ReachN(g, S \cup UNION {g[i] : i \in S}, n - 1)
Reach(g, i) == ReachN(g, g[i], NFiles)        \* files reachable from i by one or more imports
Cyclic(g, start) == \E i \in {start} \cup Reach(g, start) : i \in Reach(g, i)

\* ---- nested module roots: a rooted import resolves against the NEAREST sentinel above the importer ----
DirPrefixes(dir) == {SubSeq(dir, 1, k) : k \in 1..Len(dir)}
NearestRoot(sent, dir) ==
  LET cands == DirPrefixes(dir) \cap sent IN
  IF cands = {} THEN Reject ELSE CHOOSE r \in cands : \A q \in cands : Len(q) <= Len(r)
LayoutCase == /\ case.k = "none" /\ UNCHANGED done
              /\ \E sent \in SUBSET ImporterDirs, d1 \in ImporterDirs, d2 \in ImporterDirs, first \in BOOLEAN :
                   /\ IsPrefix(d1, d2)
                   /\ case' = [k |-> "layout", sent |-> sent, d1 |-> d1, d2 |-> d2, first |-> first,
                               r1 |-> NearestRoot(sent, d1), r2 |-> NearestRoot(sent, d2)]

Init == case = [k |-> "none"] /\ done = FALSE
PathCase == /\ case.k = "none" /\ UNCHANGED done
            /\ \E form \in {"rel", "root"}, dir \in ImporterDirs, segs \in PathSeqs, mod \in BOOLEAN :
                 case' = [k |-> "path", form |-> form, dir |-> dir, segs |-> segs, mod |-> mod,
                          target |-> Resolve(form, dir, segs, mod), base |-> Base(form, dir, mod)]
GraphCase == /\ case.k = "none" /\ UNCHANGED done
             /\ \E g \in Graphs, start \in Files :
                  case' = [k |-> "graph", g |-> [i \in Files |-> g[i]], start |-> start,
                           cyclic |-> Cyclic(g, start), reach |-> Reach(g, start)]
Emit == /\ case.k # "none" /\ ~done /\ done' = TRUE /\ UNCHANGED case
        /\ PrintT(ToJson([spec |-> "Imports", c |-> case]))
Next == PathCase \/ GraphCase \/ LayoutCase \/ Emit
Spec == Init /\ [][Next]_vars

NearestInv == case.k = "layout" => (case.r2 # Reject => IsPrefix(case.r2, case.d2) /\ (case.r1 # Reject => IsPrefix(case.r1, case.r2)))
ConfinedInv == case.k = "path" => (case.target # Reject => IsPrefix(case.base, case.target))
\* a rooted import never leaves the root however many ".." it has; a relative one that does is rejected
ClampInv == case.k = "path" /\ case.form = "root" /\ case.mod => IsPrefix(Root, case.target)
=============================================================================
