--------------------------- MODULE MC_SetAlgebra ---------------------------
(* Element pools for the SetAlgebra model: chosen to cross every bucket boundary of the     *)
(* set builder (numbers, (), generic tuples of several headings, char/item/byte tuples at    *)
(* adjacent and gapped indices, dict entries, nested sets) plus superimposed sugar tuples.   *)
EXTENDS SetAlgebra
PoolQuick == { N(1), N(2), EmptyT, Mk1("a", N(1)),
               Chr(0, 97), Chr(1, 98), Chr(3, 99),
               Itm(0, N(1)), Itm(1, N(2)),
               Ent(N(1), N(2)), Byt(0, 1), S({N(1)}),
               Chr(0, 98), Itm(0, N(2)),
               Ent(N(1), N(3)),                         \* a second value for the key 1: multi-valued dictionaries
               T([at |-> H(0), ch |-> N(97)]) }          \* (@: 0.5, @char: 97): shaped like a char tuple, not one
\* 31 elements (the size the thorough tier was fitted to): the quick pool minus nothing, plus the
\* extras; Ent(N(1), N(3)) and the half-index char tuple are in PoolQuick already, N(0) made room
PoolThorough == PoolQuick \cup
             { Mk2("a", N(1), "b", N(2)), Mk1("b", N(1)), Mk1("a", N(2)),
               Chr(2, 100), Itm(2, S({})), Itm(3, N(1)), Byt(1, 2), Byt(2, 1),
               Ent(S({N(1)}), N(1)), Ent(N(2), N(2)),
               S({}), TrueV, S({Chr(0, 97)}), S({Itm(0, N(1))}), H(1) }
PoolChain == { N(1), N(2), Mk1("a", N(1)), Chr(0, 97), Chr(1, 98), Chr(2, 99), Chr(4, 100),
               Itm(0, N(1)), Itm(1, N(2)), Itm(2, N(1)), Ent(N(1), N(2)), Ent(N(2), N(2)),
               Byt(0, 1), Byt(1, 2), S({N(1)}) }
\* branching histories (C03): two candidates at the "next" index of each sequence kind, so that one
\* parent can be extended twice in different ways at the same position
PoolBranchQ == { Chr(0, 97), Chr(1, 98), Chr(1, 99), Chr(2, 100), Chr(2, 101),
                 Byt(0, 1), Byt(1, 2), Byt(1, 3), Itm(0, N(1)), Itm(1, N(2)), Itm(1, N(1)) }
PoolBranchT == PoolBranchQ \cup { Chr(3, 100), Itm(2, N(1)), Ent(N(1), N(2)), Ent(N(1), N(3)), N(1) }
=============================================================================
