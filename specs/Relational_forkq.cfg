SPECIFICATION Spec
CONSTANTS
  AttrNames = {"a", "b", "c", "d"}
  MaxAttrs = 2
  MaxRows = 1
  Depth = 0
  Fork = TRUE
INVARIANTS TypeOK
CHECK_DEADLOCK FALSE
