SPECIFICATION Spec
CONSTANTS
  Alphabet = {1, 2, 3}
  MaxSubject = 6
  MaxPattern = 3
  MaxSubSubject = 5
INVARIANTS Laws
CHECK_DEADLOCK FALSE
