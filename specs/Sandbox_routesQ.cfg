SPECIFICATION Spec
CONSTANTS Mode = "routesQ"
  Steps = 1
  AsIs = {}
INVARIANTS Confined SafeClean UngrantedFails
CHECK_DEADLOCK FALSE
