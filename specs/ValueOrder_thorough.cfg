SPECIFICATION Spec
CONSTANTS
  Big = TRUE
  Gen = TRUE
CHECK_DEADLOCK FALSE
