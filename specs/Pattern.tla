------------------------------- MODULE Pattern -------------------------------
(* Property C09: a pattern matches a value exactly when substituting the bound names back     *)
(* into the pattern, read as an expression, rebuilds that value.  Match(p, v) is the structural *)
(* matcher: the bindings, or NoMatch.  Patterns: literal, name, _, (expr) (the value of an outer *)
(* name), array / tuple / dict / set patterns, ...rest, ?:fallback.  Build(p, b) is the value    *)
(* of the pattern read as an expression under bindings b; TLC checks Build(p, Match(p, v)) = v   *)
(* for every match (the defining law) before anything is replayed.                            *)
EXTENDS ArraiValue, SequencesExt

CONSTANTS Deep      \* TRUE: patterns and values nested one level deeper

VARIABLES case, done
vars == <<case, done>>

NoMatch == [nomatch |-> TRUE]
Outer == [o |-> N(2)]                 \* the outer scope: o = 2 (used by the (o) pattern)

\* patterns are records; k is the kind
PLit(v)  == [k |-> "lit", v |-> v]
PName(x) == [k |-> "name", x |-> x]
PWild    == [k |-> "wild"]
PExpr    == [k |-> "expr"]                                  \* (o)
\* rest: "none" | "any" (a bare ...) | a name
PArr(ps, rest)      == [k |-> "arr", ps |-> ps, rest |-> rest]
PArrFb(ps, x, d)    == [k |-> "arrfb", ps |-> ps, x |-> x, d |-> d]      \* [p1, .., ?x:d]
PTup(f, rest)       == [k |-> "tup", f |-> f, rest |-> rest]             \* f: attr -> pattern
PTupFb(f, a, x, d)  == [k |-> "tupfb", f |-> f, a |-> a, x |-> x, d |-> d]  \* (.., a?: x:d)
\* f: key value -> pattern (keys are literals); kv repeats f as a set of records for the JSON printer
PDict(f, rest)      == [k |-> "dict", f |-> f, kv |-> {[key |-> kk, pat |-> f[kk]] : kk \in DOMAIN f}, rest |-> rest]
PSet(lits, x, rest) == [k |-> "set", lits |-> lits, x |-> x, rest |-> rest]  \* {lit.., x, ...rest}; x may be "-"

Bind(b1, b2) == IF b1 = Err \/ b2 = Err THEN Err
                ELSE IF b1 = NoMatch \/ b2 = NoMatch THEN NoMatch
                ELSE IF \E n \in DOMAIN b1 \cap DOMAIN b2 : b1[n] # b2[n] THEN NoMatch     \* repeated names must agree
                ELSE [n \in DOMAIN b1 \cup DOMAIN b2 |-> IF n \in DOMAIN b1 THEN b1[n] ELSE b2[n]]
One(x, v) == [n \in {x} |-> v]

\* a dense zero-based array value and its items
IsArr0(v) == /\ IsSet(v)
             /\ \A e \in v.s : IsSugarT(e) /\ ValAttr(e) = "it" /\ IsInt(At(e))
             /\ {At(e).n : e \in v.s} = 0..(Cardinality(v.s) - 1)
Items(v) == [i \in 1..Cardinality(v.s) |-> Val(CHOOSE e \in v.s : At(e).n = i - 1)]
IsDictV(v) == IsSet(v) /\ (\A e \in v.s : IsSugarT(e) /\ ValAttr(e) = "va")
              /\ \A e, g \in v.s : At(e) = At(g) => e = g

RECURSIVE Match(_, _), MatchSeq(_, _), MatchAttrs(_, _, _)
MatchSeq(ps, vs) == IF Len(ps) = 0 THEN <<>> ELSE Bind(Match(Head(ps), Head(vs)), MatchSeq(Tail(ps), Tail(vs)))
MatchAttrs(f, names, vals) ==        \* vals: a function giving the component for each name
  IF names = {} THEN <<>>
  ELSE LET a == CHOOSE a \in names : TRUE IN Bind(Match(f[a], vals[a]), MatchAttrs(f, names \ {a}, vals))
Match(p, v) ==
  CASE p.k = "lit"  -> IF p.v = v THEN <<>> ELSE NoMatch
    [] p.k = "wild" -> <<>>
    [] p.k = "name" -> One(p.x, v)
    [] p.k = "expr" -> IF v = Outer.o THEN <<>> ELSE NoMatch
    [] p.k = "arr"  ->
         IF ~IsArr0(v) THEN NoMatch
         ELSE LET s == Items(v)  n == Len(p.ps) IN
              IF p.rest = "none" THEN (IF Len(s) = n THEN MatchSeq(p.ps, s) ELSE NoMatch)
              ELSE IF Len(s) < n THEN NoMatch
              ELSE LET m == MatchSeq(p.ps, SubSeq(s, 1, n)) IN
                   IF p.rest = "any" THEN m ELSE Bind(m, One(p.rest, Arr(SubSeq(s, n + 1, Len(s)), 0)))
    [] p.k = "arrfb" ->       \* the fallback applies only when the last component is absent
         IF ~IsArr0(v) THEN NoMatch
         ELSE LET s == Items(v)  n == Len(p.ps) IN
              IF Len(s) = n + 1 THEN Bind(MatchSeq(p.ps, SubSeq(s, 1, n)), One(p.x, s[n + 1]))
              ELSE IF Len(s) = n THEN Bind(MatchSeq(p.ps, s), One(p.x, p.d))
              ELSE NoMatch
    [] p.k = "tup" ->
         IF ~IsTup(v) \/ ~(DOMAIN p.f \subseteq Attrs(v)) THEN NoMatch
         ELSE LET m == MatchAttrs(p.f, DOMAIN p.f, v.t)
                  left == RestrictT(v, Attrs(v) \ DOMAIN p.f) IN
              IF p.rest = "none" THEN (IF Attrs(v) = DOMAIN p.f THEN m ELSE NoMatch)
              ELSE IF p.rest = "any" THEN m ELSE Bind(m, One(p.rest, left))
    [] p.k = "tupfb" ->
         IF ~IsTup(v) \/ ~(DOMAIN p.f \subseteq Attrs(v)) THEN NoMatch
         ELSE LET m == MatchAttrs(p.f, DOMAIN p.f, v.t) IN
              IF Attrs(v) = DOMAIN p.f \cup {p.a} THEN Bind(m, One(p.x, v.t[p.a]))
              ELSE IF Attrs(v) = DOMAIN p.f THEN Bind(m, One(p.x, p.d))
              ELSE NoMatch
    [] p.k = "dict" ->
         IF ~IsDictV(v) THEN NoMatch
         ELSE LET keys == {At(e) : e \in v.s}
                  get == [kk \in keys |-> Val(CHOOSE e \in v.s : At(e) = kk)] IN
              IF ~(DOMAIN p.f \subseteq keys) THEN NoMatch
              ELSE LET m == MatchAttrs(p.f, DOMAIN p.f, get)
                       left == S({e \in v.s : At(e) \notin DOMAIN p.f}) IN
                   IF p.rest = "none" THEN (IF keys = DOMAIN p.f THEN m ELSE NoMatch)
                   ELSE IF p.rest = "any" THEN m ELSE Bind(m, One(p.rest, left))
    [] p.k = "set" ->
         IF ~IsSet(v) \/ ~(p.lits \subseteq v.s) THEN NoMatch
         ELSE LET left == v.s \ p.lits IN
              IF p.x = "-" THEN (IF p.rest = "none" THEN (IF left = {} THEN <<>> ELSE NoMatch)
                                 ELSE IF p.rest = "any" THEN <<>> ELSE One(p.rest, S(left)))
              ELSE IF p.rest = "none" THEN (IF Cardinality(left) = 1 THEN One(p.x, CHOOSE e \in left : TRUE) ELSE NoMatch)
              ELSE Err      \* a free name next to ...rest: which member it takes is not determined

\* the pattern read as an expression (rest names are spliced back; "any"/wild lose information)
Rebuildable(p) == CASE p.k \in {"wild"} -> FALSE
                    [] p.k \in {"arr", "tup", "dict", "set"} -> p.rest # "any"
                    [] OTHER -> TRUE
RECURSIVE Build(_, _), Deterministic(_)
Deterministic(p) ==
  /\ Rebuildable(p)
  /\ CASE p.k = "arr" -> \A i \in DOMAIN p.ps : Deterministic(p.ps[i])
       [] p.k \in {"tup", "dict"} -> \A a \in DOMAIN p.f : Deterministic(p.f[a])
       [] p.k \in {"arrfb", "tupfb"} -> FALSE
       [] OTHER -> TRUE
Build(p, b) ==
  CASE p.k = "lit"  -> p.v
    [] p.k = "name" -> b[p.x]
    [] p.k = "expr" -> Outer.o
    [] p.k = "arr"  -> LET front == [i \in DOMAIN p.ps |-> Build(p.ps[i], b)] IN
                       IF p.rest = "none" THEN Arr(front, 0) ELSE Concat(Arr(front, 0), b[p.rest])
    [] p.k = "tup"  -> LET front == T([a \in DOMAIN p.f |-> Build(p.f[a], b)]) IN
                       IF p.rest = "none" THEN front ELSE MergeT(front, b[p.rest])
    [] p.k = "dict" -> LET front == S({Ent(kk, Build(p.f[kk], b)) : kk \in DOMAIN p.f}) IN
                       IF p.rest = "none" THEN front ELSE S(front.s \cup b[p.rest].s)
    [] p.k = "set"  -> S(p.lits \cup (IF p.x = "-" THEN {} ELSE {b[p.x]}) \cup (IF p.rest = "none" THEN {} ELSE b[p.rest].s))

\* ---- universes -------------------------------------------------------------------------------
Names == {"x", "y"}
Leaf == {PLit(N(1)), PName("x"), PName("y"), PWild, PExpr}
Rests == {"none", "any", "t", "x"}      \* "x" repeats a leaf name: the remainder must agree with it
Seqs(A, lo, hi) == UNION {[1..n -> A] : n \in lo..hi}
P1 == Leaf
      \cup {PArr(q, r) : q \in Seqs(Leaf, 0, 2), r \in Rests}
      \cup {PArrFb(q, "y", N(7)) : q \in Seqs({PName("x"), PLit(N(1))}, 0, 1)}
      \cup {PTup([a \in h |-> IF a = "a" THEN pa ELSE pb], r) : h \in {{"a"}, {"a", "b"}}, pa \in Leaf, pb \in {PName("y"), PLit(N(1))}, r \in Rests}
      \cup {PTup(<<>>, r) : r \in Rests}
      \cup {PTupFb([a \in h |-> PName("x")], "b", "y", N(7)) : h \in {{}, {"a"}}}
      \cup {PDict([kk \in ks |-> IF kk = N(1) THEN pa ELSE PName("y")], r) : ks \in {{N(1)}, {N(1), Str(<<107>>, 0)}}, pa \in Leaf, r \in Rests}
      \cup {PSet(ls, x, r) : ls \in {{}, {N(1)}, {N(1), N(2)}}, x \in {"-", "x"}, r \in Rests}
P2 == P1 \cup {PArr(q, r) : q \in Seqs(P1 \ Leaf, 1, 1) \cup {<<a, b>> : a \in {PName("x"), PLit(N(1))}, b \in P1 \ Leaf}, r \in {"none", "t", "x"}}
         \cup {PTup([a \in {"a"} |-> q], r) : q \in P1 \ Leaf, r \in {"none", "t", "x"}}
V0 == {N(1), N(2), N(3)}
ArrVals(A) == {Arr(q, 0) : q \in Seqs(A, 0, 3)}
V1 == V0 \cup ArrVals({N(1), N(2)}) \cup {Arr(<<N(1), N(2)>>, 1), Arr(<<N(1), Hole, N(2)>>, 0), Arr(<<N(2)>>, -1)}
         \cup {T(f) : f \in UNION {[h -> {N(1), N(2)}] : h \in SUBSET {"a", "b", "c"}}}
         \cup {S(x) : x \in SUBSET {N(1), N(2), N(3)}}
         \cup {Dict(f) : f \in UNION {[ks -> {N(1), N(2)}] : ks \in (SUBSET {N(1), N(2), Str(<<107>>, 0)}) \ {{}}}}
         \cup {S({Ent(N(1), N(1)), Ent(N(1), N(2))}), Str(<<97>>, 0), TrueV}
V2 == V1 \cup {Arr(<<a>>, 0) : a \in V1 \ V0} \cup {Arr(<<a, b>>, 0) : a \in {N(1), N(2)}, b \in V1 \ V0}
         \cup {Mk1("a", a) : a \in V1 \ V0}

Init == case = [k |-> "none"] /\ done = FALSE
Pick == /\ case.k = "none" /\ UNCHANGED done
        /\ \E p \in (IF Deep THEN P2 ELSE P1), v \in (IF Deep THEN V2 ELSE V1) :
             case' = [k |-> "match", p |-> p, v |-> v, m |-> Match(p, v)]
Emit == /\ case.k # "none" /\ ~done /\ done' = TRUE /\ UNCHANGED case
        /\ PrintT(ToJson([spec |-> "Pattern", c |-> case]))
Next == Pick \/ Emit
Spec == Init /\ [][Next]_vars

\* the defining law: a match rebuilds the value
RebuildLaw == (case.k = "match" /\ case.m # NoMatch /\ case.m # Err /\ Deterministic(case.p)) => Build(case.p, case.m) = case.v
=============================================================================
