SPECIFICATION SpecT
INVARIANTS AddsUp PassIffAllTrue
CHECK_DEADLOCK FALSE
