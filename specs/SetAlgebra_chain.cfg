SPECIFICATION Spec
CONSTANTS
  Elems <- PoolChain
  MaxLit = 3
  Depth = 3
INVARIANTS TypeOK Laws
PROPERTIES AppendOnly
CHECK_DEADLOCK FALSE
