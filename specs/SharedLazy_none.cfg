SPECIFICATION Spec
CONSTANTS G = 2
  Ops = {"tuple.print", "tuple.inset"}
  NoneDisc = {"tuple"}
INVARIANTS NoRace ComputeAtMostOnce
CHECK_DEADLOCK FALSE
