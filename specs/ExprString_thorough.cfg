SPECIFICATION Spec
CONSTANTS MaxLines = 3
INVARIANTS Sane
CHECK_DEADLOCK FALSE
