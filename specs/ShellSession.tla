---------------------------- MODULE ShellSession ----------------------------
(* Beyond the listed properties: the interactive shell (pkg/shell) as a state machine.           *)
(*                                                                                          *)
(* State: the session scope (names bound by /set), the line collector (collected lines and the     *)
(* stack of delimiters still open) and what the last step did.  One action per input line, shaped   *)
(* like shellInstance.parseCmd: the line is trimmed; a non-empty line is scanned character by       *)
(* character by the collector's pushdown automaton (openers ( [ { " ' ` $" $' $` and, inside a        *)
(* template, ${ ; a backslash escapes the next character inside " and ' ; `` does not close a         *)
(* backquoted string); when the collected text is balanced and does not end in a continuation         *)
(* marker ( ; : \x x. ) it is submitted - as a command (/set /unset /exit, anything else unknown) or    *)
(* as an expression - and the collector is reset.                                                *)
(*                                                                                          *)
(* Checked by TLC on every state: NeverSubmitsOpen (nothing is evaluated while a delimiter is open), *)
(* NoStuck (a balanced text without continuation marker is not kept waiting), FailedSetKeepsScope,    *)
(* UnsetRemoves, StackShape.  Every behaviour TLC generates is replayed line by line into the real    *)
(* shell (hook pkg/shell/verif_on.go, which calls the shell's own parseCmd) and the abstract state -   *)
(* collected lines, stack depth, bound names and their values, error or not - is compared after       *)
(* every line.                                                                                *)
EXTENDS Integers, Sequences, FiniteSets, SequencesExt, TLC, Json

CONSTANTS MaxLines,   \* input lines per session
          LinePool    \* "delims" | "session": which lines a session draws from

VARIABLES scope, lines, stack, hist, last, done
vars == <<scope, lines, stack, hist, last, done>>

\* ---- the collector's automaton over characters ----------------------------------------------------
\* a closer on the stack: the text that closes it, whether openers are recognised inside it, and
\* whether it is a template (then only ${ opens)
Closer(ch, rec, tmpl) == [ch |-> ch, rec |-> rec, tmpl |-> tmpl]
Openers1 == [c \in {"{", "(", "[", "\"", "'", "`"} |->
               CASE c = "{" -> Closer("}", TRUE, FALSE) [] c = "(" -> Closer(")", TRUE, FALSE) [] c = "[" -> Closer("]", TRUE, FALSE)
                 [] OTHER -> Closer(c, FALSE, FALSE)]
Top(st) == IF st = <<>> THEN [ch |-> "", rec |-> TRUE, tmpl |-> FALSE] ELSE st[Len(st)]
Pop(st) == IF st = <<>> THEN st ELSE SubSeq(st, 1, Len(st) - 1)
\* one scanning step at position i of line l (a sequence of one-character strings): the new stack and
\* the number of characters consumed
Scan1(l, i, st) ==
  LET c == l[i]
      n == IF i < Len(l) THEN l[i + 1] ELSE ""
      top == Top(st) IN
  IF c = "\\" /\ st # <<>> /\ top.ch \in {"\"", "'"} THEN [st |-> st, inc |-> 2]
  ELSE IF st # <<>> /\ c = top.ch
       THEN (IF top.ch = "`" /\ n = "`" THEN [st |-> st, inc |-> 2] ELSE [st |-> Pop(st), inc |-> 1])
  ELSE IF st # <<>> /\ ~top.rec THEN [st |-> st, inc |-> 1]
  ELSE IF top.tmpl
       THEN (IF c = "$" /\ n = "{" THEN [st |-> Append(st, Closer("}", TRUE, FALSE)), inc |-> 2] ELSE [st |-> st, inc |-> 1])
  ELSE IF c \in DOMAIN Openers1 THEN [st |-> Append(st, Openers1[c]), inc |-> 1]
  ELSE IF c = "$" /\ n \in {"\"", "'", "`"} THEN [st |-> Append(st, Closer(n, TRUE, TRUE)), inc |-> 2]
  ELSE [st |-> st, inc |-> 1]
RECURSIVE ScanFrom(_, _, _)
ScanFrom(l, i, st) == IF i > Len(l) THEN st ELSE LET r == Scan1(l, i, st) IN ScanFrom(l, i + r.inc, r.st)

IsIdentCh(c) == c \in {"a", "x", "y", "1", "$"}          \* [0-9$@A-Za-z_]
IsWordCh(c) == c \in {"a", "x", "y", "1"}                \* \w
\* the line ends in something that announces more input
Continues(l) == LET n == Len(l) IN
  \/ l[n] \in {";", ":"}
  \/ \E k \in 1..(n - 1) : /\ l[k] = "\\"                    \* a lambda parameter: \x at the end
                            /\ \/ (k = n - 1 /\ l[n] = ".")
                               \/ (l[k + 1] # "1" /\ \A j \in (k + 1)..n : IsIdentCh(l[j]))
  \/ (n >= 2 /\ l[n] = "." /\ IsWordCh(l[n - 1]))                          \* x.
Balanced(ls, st) == /\ (st = <<>> \/ Top(st).rec) /\ ls # <<>> /\ ~Continues(ls[Len(ls)]) /\ st = <<>>

\* ---- lines ------------------------------------------------------------------------------------------
\* a line is a record: its characters, and (for the session pool) what it means
Chars(s) == s      \* lines are written as sequences of one-character strings
DelimAlphabet == {"(", ")", "{", "}", "\"", "'", "`", "$", "\\", "a", ";", ":", "."}
DelimLines == UNION {[1..n -> DelimAlphabet] : n \in 1..3}
L(text, kind, name, val) == [text |-> text, kind |-> kind, name |-> name, val |-> val]
\* expression values: a constant, or another name plus one
SessionLines ==
  {L(<<"/", "s", "e", "t", " ", n, " ", "=", " ", "1">>, "set", n, [k |-> "const", v |-> 1]) : n \in {"x", "y", "."}}
  \cup {L(<<"/", "s", "e", "t", " ", "x", " ", "=", " ", "y", "+", "1">>, "set", "x", [k |-> "plus", n |-> "y"])}
  \cup {L(<<"/", "s", "e", "t", " ", "y", " ", "=", " ", "x", "+", "1">>, "set", "y", [k |-> "plus", n |-> "x"])}
  \cup {L(<<"/", "s", "e", "t", " ", "x", " ", "=", " ", "(">>, "open", "x", [k |-> "none"])}          \* continues on the next line
  \cup {L(<<"1", ")">>, "close", "", [k |-> "const", v |-> 1])}
  \cup {L(<<"/", "s", "e", "t", " ", "x">>, "badset", "", [k |-> "none"])}
  \cup {L(<<"/", "u", "n", "s", "e", "t", " ", n>>, "unset", n, [k |-> "none"]) : n \in {"x", "y"}}
  \cup {L(<<"/", "n", "o", "p", "e">>, "unknown", "", [k |-> "none"])}
  \cup {L(<<n>>, "eval", "", [k |-> "ref", n |-> n]) : n \in {"x", "y"}}
  \cup {L(<<"x", "+", "1">>, "eval", "", [k |-> "plus", n |-> "x"])}
  \cup {L(<<" ">>, "blank", "", [k |-> "none"])}
Pool == IF LinePool = "delims" THEN {L(t, "text", "", [k |-> "none"]) : t \in DelimLines} ELSE SessionLines

Trim(t) == LET nb == {i \in DOMAIN t : t[i] # " "} IN
           IF nb = {} THEN <<>> ELSE SubSeq(t, CHOOSE i \in nb : \A j \in nb : i <= j, CHOOSE i \in nb : \A j \in nb : i >= j)

\* ---- expressions of the session pool -------------------------------------------------------------------
None == -1
ValOf(e, sc) == CASE e.k = "const" -> e.v
                  [] e.k = "ref" -> IF e.n \in DOMAIN sc THEN sc[e.n] ELSE None
                  [] e.k = "plus" -> IF e.n \in DOMAIN sc THEN sc[e.n] + 1 ELSE None
                  [] OTHER -> None
Ext(sc, n, v) == [m \in DOMAIN sc \cup {n} |-> IF m = n THEN v ELSE sc[m]]
Drop(sc, n) == [m \in DOMAIN sc \ {n} |-> sc[m]]

\* ---- one input line -------------------------------------------------------------------------------------
\* what a submitted text does: the session pool's texts are recognised by the line that started them
Submit(ls, sc) ==
  LET first == ls[1]  lastline == ls[Len(ls)] IN
  CASE first.kind = "open" /\ ~(Len(ls) = 2 /\ lastline.kind = "close") -> [scope |-> sc, r |-> "any"]
    [] Len(ls) > 1 /\ first.kind # "open" -> [scope |-> sc, r |-> "any"]
    [] first.kind = "set" ->
         LET v == ValOf(first.val, sc) IN
         IF v = None THEN [scope |-> sc, r |-> "error"] ELSE [scope |-> Ext(sc, first.name, v), r |-> "ok"]
    [] first.kind = "open" ->      \* /set x = (  ...  1)
         [scope |-> Ext(sc, first.name, ValOf(lastline.val, sc)), r |-> "ok"]
    [] first.kind = "unset" -> [scope |-> Drop(sc, first.name), r |-> "ok"]
    [] first.kind \in {"badset", "unknown"} -> [scope |-> sc, r |-> "error"]
    [] first.kind = "eval" -> [scope |-> sc, r |-> IF ValOf(first.val, sc) = None THEN "error" ELSE "ok"]
    [] first.kind = "close" -> [scope |-> sc, r |-> "error"]              \* 1) alone: a syntax error
    [] OTHER -> [scope |-> sc, r |-> "any"]                               \* delimiter soup: outcome not modelled
Init == /\ scope = <<>> /\ lines = <<>> /\ stack = <<>> /\ hist = <<>> /\ last = "start" /\ done = FALSE
Feed(l) ==
  LET t == Trim(l.text)
      ls == IF t = <<>> THEN lines ELSE Append(lines, [l EXCEPT !.text = t])
      st == IF t = <<>> THEN stack ELSE ScanFrom(t, 1, stack) IN
  /\ IF ls # <<>> /\ Balanced([i \in DOMAIN ls |-> ls[i].text], st)
     THEN LET s == Submit(ls, scope) IN
          /\ scope' = s.scope /\ last' = s.r /\ lines' = <<>> /\ stack' = <<>>
     ELSE /\ scope' = scope /\ lines' = ls /\ stack' = st /\ last' = "wait"
  \* the observation the harness compares after this line
  /\ hist' = Append(hist, [l EXCEPT !.val = [k |-> "obs"]] @@ [nlines |-> Len(lines'), depth |-> Len(stack'), r |-> last',
                                                            names |-> DOMAIN scope', vals |-> [n \in DOMAIN scope' |-> scope'[n]]])
Step == /\ ~done /\ Len(hist) < MaxLines /\ UNCHANGED done /\ \E l \in Pool : Feed(l)
Emit == /\ ~done /\ hist # <<>> /\ done' = TRUE /\ UNCHANGED <<scope, lines, stack, hist, last>>
        /\ PrintT(ToJson([spec |-> "ShellSession", steps |-> hist]))
Next == Step \/ Emit
Spec == Init /\ [][Next]_vars

\* ---- properties -----------------------------------------------------------------------------------------
StackShape == \A i \in DOMAIN stack : stack[i].ch \in {"}", ")", "]", "\"", "'", "`"}
\* nothing waits with an empty stack unless the last line announces more
NoStuck == (lines # <<>> /\ stack = <<>>) => Continues(lines[Len(lines)].text)
\* nothing is kept across a submission
ResetOnSubmit == last \in {"ok", "error", "any"} => (lines = <<>> /\ stack = <<>>)
FailedKeepsScope == [][(last' = "error") => scope' = scope]_vars
UnsetRemoves == [][(last' = "ok" /\ lines = <<>> /\ hist' # hist /\ hist'[Len(hist')].kind = "unset")
                     => hist'[Len(hist')].name \notin DOMAIN scope']_vars
=============================================================================
