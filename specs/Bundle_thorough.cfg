SPECIFICATION Spec
CONSTANTS MaxEdges = 2
  Wide = TRUE
  AsIs = {}
INVARIANTS Commutes Complete Inside
CHECK_DEADLOCK FALSE
