------------------------------ MODULE CoreLang ------------------------------
(* Property C08: rewriting a program by a documented equivalence never changes its value or      *)
(* whether it fails.                                                                          *)
(*                                                                                          *)
(* The state is a program of a core expression language (numbers, names, let, lambda and         *)
(* application, ->, arithmetic with the documented precedence and associativity, set and array    *)
(* literals, the item tuples arrays are sugar for, => and where with the implicit \. binder or an  *)
(* explicit one, tuple-pattern let, cond / && / ||) and one rewrite of it.  Ev is the reference    *)
(* evaluator (closures are records [x, body, env]); the rewrite system has one action per          *)
(* documented equivalence, applicable at every position:                                        *)
(*   LetToArrow, LetToCall   let p = e1; e2  =  e1 -> \p e2  =  (\p e2)(e1)                       *)
(*   Desugar                 [e1, e2] = {(@: 0, @item: e1), (@: 1, @item: e2)}                    *)
(*   ExplicitBinder          s => body(.) = s => \z body(z)      (also where)                    *)
(*   InlineLet               let x = v; e = e[v/x]               (v a value; capture-avoiding)    *)
(*   DeadBranch              the branch cond / && / || does not select is replaced by a failure   *)
(* Redundant parentheses, the parentheses implied by precedence and associativity, comments and    *)
(* whitespace are rendering choices of the harness: the AST is the parse, NeedsParens is the      *)
(* documented table, and every program is rendered minimally, fully parenthesised and with        *)
(* trivia.  TLC checks Preserved (Ev of the rewritten program equals Ev of the original) on every  *)
(* state - which validates the rules themselves, e.g. that InlineLet avoids capture - and emits    *)
(* every (original, rewritten, value); the harness compiles and evaluates both sides with the      *)
(* real compiler in all renderings and compares with each other and with Ev.                    *)
EXTENDS ArraiValue, SequencesExt

CONSTANTS Mode     \* "arith" | "binding" | "collections" | "control": which family of seed programs

VARIABLES ast0, ast1, rule, done
vars == <<ast0, ast1, rule, done>>

\* ---- syntax --------------------------------------------------------------------------------
Num(n)          == [k |-> "num", n |-> n]
Var(x)          == [k |-> "var", x |-> x]
Dot             == Var(".")
Let(x, e1, e2)  == [k |-> "let", x |-> x, a |-> e1, b |-> e2]
LetT(e1, e2)    == [k |-> "lett", a |-> e1, b |-> e2]          \* let (p: a, q: b, r: c) = e1; e2
Lam(x, e)       == [k |-> "lam", x |-> x, a |-> e]
App(f, e)       == [k |-> "app", a |-> f, b |-> e]
Arrow(e1, x, e2) == [k |-> "arrow", x |-> x, a |-> e1, b |-> e2]   \* e1 -> \x e2
ArrowT(e1, e2)  == [k |-> "arrowt", a |-> e1, b |-> e2]        \* e1 -> \(p: a, q: b, r: c) e2
AppT(e1, e2)    == [k |-> "appt", a |-> e1, b |-> e2]          \* (\(p: a, q: b, r: c) e2)(e1)
Bin(op, l, r)   == [k |-> "bin", op |-> op, a |-> l, b |-> r]
Neg(e)          == [k |-> "neg", a |-> e]
SetL(es)        == [k |-> "set", es |-> es]                    \* es: a sequence
ArrL(es)        == [k |-> "arr", es |-> es]
Item(i, e)      == [k |-> "item", i |-> i, a |-> e]            \* (@: i, @item: e)
Tup3(e1, e2, e3) == [k |-> "tup3", es |-> <<e1, e2, e3>>]      \* (p: e1, q: e2, r: e3)
MapD(s, body)   == [k |-> "mapd", a |-> s, b |-> body]         \* s => body        (body mentions .)
MapX(s, x, body) == [k |-> "mapx", x |-> x, a |-> s, b |-> body]   \* s => \x body
WhereD(s, body) == [k |-> "whered", a |-> s, b |-> body]
WhereX(s, x, body) == [k |-> "wherex", x |-> x, a |-> s, b |-> body]
Cond(c, t, f)   == [k |-> "cond", c |-> c, a |-> t, b |-> f]    \* cond {c: t, _: f}
And(l, r)       == [k |-> "and", a |-> l, b |-> r]
Or(l, r)        == [k |-> "or", a |-> l, b |-> r]
Cmp(op, l, r)   == [k |-> "cmp", op |-> op, a |-> l, b |-> r]   \* <, =
Fail            == [k |-> "fail"]                              \* (\z z(1))(1): fails when evaluated

\* ---- the reference evaluator -----------------------------------------------------------------
Skip == [skip |-> TRUE]            \* outside the modelled arithmetic (overflow, fractions)
IsSkip(v) == "skip" \in DOMAIN v
Clo(x, body, env) == [clo |-> TRUE, x |-> x, body |-> body, env |-> env]
IsClo(v) == "clo" \in DOMAIN v
Bad(v) == IsErr(v) \/ IsSkip(v)
Ext(env, x, v) == [y \in DOMAIN env \cup {x} |-> IF y = x THEN v ELSE env[y]]
RECURSIVE IPow(_, _)
IPow(a, b) == IF b = 0 THEN 1 ELSE a * IPow(a, b - 1)
Arith(op, x, y) ==
  IF ~IsInt(x) \/ ~IsInt(y) THEN Err
  ELSE CASE op = "+" -> N(x.n + y.n) [] op = "-" -> N(x.n - y.n) [] op = "*" -> N(x.n * y.n)
         [] OTHER -> IF y.n < 0 \/ y.n > 12 \/ x.n > 8 \/ x.n < -8 THEN Skip ELSE N(IPow(x.n, y.n))
Truthy(v) == IF IsNum(v) THEN v # N(0) ELSE IF IsSet(v) THEN v.s # {} ELSE IF IsTup(v) THEN Attrs(v) # {} ELSE TRUE

RECURSIVE Ev(_, _), EvSeq(_, _), MapOver(_, _, _, _), FilterOver(_, _, _, _)
EvSeq(es, env) == [i \in DOMAIN es |-> Ev(es[i], env)]
\* the elements of a set in some order, folded: results are order-free because the result is a set
MapOver(elems, x, body, env) ==
  IF elems = {} THEN S({})
  ELSE LET e == CHOOSE e \in elems : TRUE
           r == Ev(body, Ext(env, x, e))
           rest == MapOver(elems \ {e}, x, body, env) IN
       IF IsErr(r) \/ IsErr(rest) THEN Err ELSE IF IsSkip(r) \/ IsSkip(rest) THEN Skip
       ELSE IF IsClo(r) THEN Skip ELSE S(rest.s \cup {r})
FilterOver(elems, x, body, env) ==
  IF elems = {} THEN S({})
  ELSE LET e == CHOOSE e \in elems : TRUE
           r == Ev(body, Ext(env, x, e))
           rest == FilterOver(elems \ {e}, x, body, env) IN
       IF IsErr(r) \/ IsErr(rest) THEN Err ELSE IF IsSkip(r) \/ IsSkip(rest) THEN Skip
       ELSE IF Truthy(r) THEN S(rest.s \cup {e}) ELSE rest
Apply(f, v) == IF Bad(f) THEN f ELSE IF Bad(v) THEN v ELSE IF ~IsClo(f) THEN Err ELSE Ev(f.body, Ext(f.env, f.x, v))
BindT(v, env) ==   \* (p: a, q: b, r: c) against v
  IF IsTup(v) /\ Attrs(v) = {"p", "q", "r"} THEN Ext(Ext(Ext(env, "a", v.t["p"]), "b", v.t["q"]), "c", v.t["r"]) ELSE <<"nomatch">>
Ev(e, env) ==
  CASE e.k = "num" -> N(e.n)
    [] e.k = "var" -> IF e.x \in DOMAIN env THEN env[e.x] ELSE Err
    [] e.k = "let" -> LET v == Ev(e.a, env) IN IF Bad(v) THEN v ELSE Ev(e.b, Ext(env, e.x, v))
    [] e.k = "arrow" -> LET v == Ev(e.a, env) IN IF Bad(v) THEN v ELSE Ev(e.b, Ext(env, e.x, v))
    [] e.k \in {"lett", "arrowt", "appt"} ->
         LET v == Ev(e.a, env) IN
         IF Bad(v) THEN v ELSE LET env2 == BindT(v, env) IN IF env2 = <<"nomatch">> THEN Err ELSE Ev(e.b, env2)
    [] e.k = "lam" -> Clo(e.x, e.a, env)
    [] e.k = "app" -> LET f == Ev(e.a, env) IN IF Bad(f) THEN f ELSE Apply(f, Ev(e.b, env))
    [] e.k = "bin" -> LET x == Ev(e.a, env) IN IF Bad(x) THEN x ELSE
                      LET y == Ev(e.b, env) IN IF Bad(y) THEN y ELSE Arith(e.op, x, y)
    [] e.k = "neg" -> LET x == Ev(e.a, env) IN IF Bad(x) THEN x ELSE IF IsInt(x) THEN N(0 - x.n) ELSE Err
    [] e.k = "cmp" -> LET x == Ev(e.a, env) IN IF Bad(x) THEN x ELSE
                      LET y == Ev(e.b, env) IN IF Bad(y) THEN y ELSE
                      IF e.op = "=" THEN (IF IsClo(x) \/ IsClo(y) THEN Skip ELSE Bool(x = y))
                      ELSE IF IsInt(x) /\ IsInt(y) THEN Bool(x.n < y.n) ELSE Skip
    [] e.k \in {"set", "arr", "tup3"} ->
         LET vs == EvSeq(e.es, env) IN
         IF \E i \in DOMAIN vs : IsErr(vs[i]) THEN Err
         ELSE IF \E i \in DOMAIN vs : IsSkip(vs[i]) \/ IsClo(vs[i]) THEN Skip
         ELSE IF e.k = "set" THEN S({vs[i] : i \in DOMAIN vs})
         ELSE IF e.k = "arr" THEN Arr(vs, 0)
         ELSE T([n \in {"p", "q", "r"} |-> vs[CASE n = "p" -> 1 [] n = "q" -> 2 [] OTHER -> 3]])
    [] e.k = "item" -> LET v == Ev(e.a, env) IN IF Bad(v) THEN v ELSE IF IsClo(v) THEN Skip ELSE Itm(e.i, v)
    [] e.k \in {"mapd", "mapx", "whered", "wherex"} ->
         LET s == Ev(e.a, env)  x == IF e.k \in {"mapd", "whered"} THEN "." ELSE e.x IN
         IF Bad(s) THEN s ELSE IF ~IsSet(s) THEN Err
         ELSE IF e.k \in {"mapd", "mapx"} THEN MapOver(s.s, x, e.b, env) ELSE FilterOver(s.s, x, e.b, env)
    [] e.k = "cond" -> LET c == Ev(e.c, env) IN IF Bad(c) THEN c ELSE IF Truthy(c) THEN Ev(e.a, env) ELSE Ev(e.b, env)
    [] e.k = "and" -> LET l == Ev(e.a, env) IN IF Bad(l) THEN l ELSE IF Truthy(l) THEN Ev(e.b, env) ELSE l
    [] e.k = "or" -> LET l == Ev(e.a, env) IN IF Bad(l) THEN l ELSE IF Truthy(l) THEN l ELSE Ev(e.b, env)
    [] OTHER -> Err                                                   \* fail

\* ---- free names and capture-avoiding substitution ------------------------------------------------
RECURSIVE Free(_)
Free(e) ==
  CASE e.k = "num" -> {} [] e.k = "fail" -> {} [] e.k = "var" -> {e.x}
    [] e.k \in {"let", "arrow"} -> Free(e.a) \cup (Free(e.b) \ {e.x})
    [] e.k \in {"lett", "arrowt", "appt"} -> Free(e.a) \cup (Free(e.b) \ {"a", "b", "c"})
    [] e.k = "lam" -> Free(e.a) \ {e.x}
    [] e.k \in {"mapx", "wherex"} -> Free(e.a) \cup (Free(e.b) \ {e.x})
    [] e.k \in {"mapd", "whered"} -> Free(e.a) \cup (Free(e.b) \ {"."})
    [] e.k \in {"set", "arr", "tup3"} -> UNION {Free(e.es[i]) : i \in DOMAIN e.es}
    [] e.k = "cond" -> Free(e.c) \cup Free(e.a) \cup Free(e.b)
    [] e.k \in {"neg", "item"} -> Free(e.a)
    [] OTHER -> Free(e.a) \cup Free(e.b)
\* e[v/x] for a closed v: stops under a binder of x
RECURSIVE Subst(_, _, _)
Subst(e, x, v) ==
  CASE e.k \in {"num", "fail"} -> e
    [] e.k = "var" -> IF e.x = x THEN v ELSE e
    [] e.k \in {"let", "arrow"} -> [e EXCEPT !.a = Subst(e.a, x, v), !.b = IF e.x = x THEN e.b ELSE Subst(e.b, x, v)]
    [] e.k \in {"lett", "arrowt", "appt"} -> [e EXCEPT !.a = Subst(e.a, x, v), !.b = IF x \in {"a", "b", "c"} THEN e.b ELSE Subst(e.b, x, v)]
    [] e.k = "lam" -> IF e.x = x THEN e ELSE [e EXCEPT !.a = Subst(e.a, x, v)]
    [] e.k \in {"mapx", "wherex"} -> [e EXCEPT !.a = Subst(e.a, x, v), !.b = IF e.x = x THEN e.b ELSE Subst(e.b, x, v)]
    [] e.k \in {"mapd", "whered"} -> [e EXCEPT !.a = Subst(e.a, x, v), !.b = IF x = "." THEN e.b ELSE Subst(e.b, x, v)]
    [] e.k \in {"set", "arr", "tup3"} -> [e EXCEPT !.es = [i \in DOMAIN e.es |-> Subst(e.es[i], x, v)]]
    [] e.k = "cond" -> [e EXCEPT !.c = Subst(e.c, x, v), !.a = Subst(e.a, x, v), !.b = Subst(e.b, x, v)]
    [] e.k \in {"neg", "item"} -> [e EXCEPT !.a = Subst(e.a, x, v)]
    [] OTHER -> [e EXCEPT !.a = Subst(e.a, x, v), !.b = Subst(e.b, x, v)]

\* ---- the rewrite system ---------------------------------------------------------------------------
IsValue(e) == e.k = "num" \/ (e.k \in {"set", "arr"} /\ \A i \in DOMAIN e.es : e.es[i].k = "num")
\* rewrites of the node itself: a set of [r |-> rule name, e |-> new node]
Top(e, env) ==
  (IF e.k = "let" THEN {[r |-> "LetToArrow", e |-> Arrow(e.a, e.x, e.b)], [r |-> "LetToCall", e |-> App(Lam(e.x, e.b), e.a)]} ELSE {})
  \cup (IF e.k = "arrow" THEN {[r |-> "ArrowToLet", e |-> Let(e.x, e.a, e.b)]} ELSE {})
  \cup (IF e.k = "lett" THEN {[r |-> "LetToArrow", e |-> ArrowT(e.a, e.b)], [r |-> "LetToCall", e |-> AppT(e.a, e.b)]} ELSE {})
  \cup (IF e.k = "arr" THEN {[r |-> "Desugar", e |-> SetL([i \in DOMAIN e.es |-> Item(i - 1, e.es[i])])]} ELSE {})
  \cup (IF e.k = "mapd" THEN {[r |-> "ExplicitBinder", e |-> MapX(e.a, "z", Subst(e.b, ".", Var("z")))]} ELSE {})
  \cup (IF e.k = "whered" THEN {[r |-> "ExplicitBinder", e |-> WhereX(e.a, "z", Subst(e.b, ".", Var("z")))]} ELSE {})
  \cup (IF e.k = "let" /\ IsValue(e.a) THEN {[r |-> "InlineLet", e |-> Subst(e.b, e.x, e.a)]} ELSE {})
  \cup (IF e.k = "cond" /\ ~Bad(Ev(e.c, env))
        THEN {[r |-> "DeadBranch", e |-> IF Truthy(Ev(e.c, env)) THEN [e EXCEPT !.b = Fail] ELSE [e EXCEPT !.a = Fail]]} ELSE {})
  \cup (IF e.k = "and" /\ ~Bad(Ev(e.a, env)) /\ ~Truthy(Ev(e.a, env)) THEN {[r |-> "DeadBranch", e |-> [e EXCEPT !.b = Fail]]} ELSE {})
  \cup (IF e.k = "or" /\ ~Bad(Ev(e.a, env)) /\ Truthy(Ev(e.a, env)) THEN {[r |-> "DeadBranch", e |-> [e EXCEPT !.b = Fail]]} ELSE {})
\* rewrites at every position whose environment is known statically: the top, and the spine of lets
\* (DeadBranch needs the value of the condition) plus all purely syntactic rules everywhere
RECURSIVE All(_, _, _)
Inside(e, f, sub) == {[r |-> w.r, e |-> [e EXCEPT ![f] = w.e]] : w \in sub}
All(e, env, known) ==
  LET here == IF known THEN Top(e, env) ELSE {w \in Top(e, <<>>) : w.r # "DeadBranch"}
      kidsAB == IF e.k \in {"app", "bin", "cmp", "and", "or", "arrowt", "appt", "lett", "arrow", "mapd", "mapx", "whered", "wherex"}
                THEN Inside(e, "a", All(e.a, env, known)) \cup Inside(e, "b", All(e.b, env, FALSE)) ELSE {}
      letKids == IF e.k = "let"
                 THEN Inside(e, "a", All(e.a, env, known))
                      \cup (LET v == Ev(e.a, env) IN
                            Inside(e, "b", All(e.b, IF known /\ ~Bad(v) THEN Ext(env, e.x, v) ELSE env, known /\ ~Bad(v))))
                 ELSE {}
      unary == IF e.k \in {"lam", "neg", "item"} THEN Inside(e, "a", All(e.a, env, FALSE)) ELSE {}
      condKids == IF e.k = "cond" THEN Inside(e, "c", All(e.c, env, known)) \cup Inside(e, "a", All(e.a, env, known)) \cup Inside(e, "b", All(e.b, env, known)) ELSE {}
      seqKids == IF e.k \in {"set", "arr", "tup3"}
                 THEN UNION {{[r |-> w.r, e |-> [e EXCEPT !.es[i] = w.e]] : w \in All(e.es[i], env, known)} : i \in DOMAIN e.es} ELSE {}
  IN here \cup kidsAB \cup letKids \cup unary \cup condKids \cup seqKids

\* ---- seed programs ----------------------------------------------------------------------------------
Atoms == {Num(2), Num(3), Var("a")}
Ops == {"+", "-", "*", "^"}
Wrap(body) == {Let("a", Num(v), body) : v \in {2, 3}}
ArithBodies == {Bin(o1, x, Bin(o2, y, z)) : o1 \in Ops, o2 \in Ops, x \in Atoms, y \in Atoms, z \in Atoms}
               \cup {Bin(o1, Bin(o2, x, y), z) : o1 \in Ops, o2 \in Ops, x \in Atoms, y \in Atoms, z \in Atoms}
               \cup {Bin(o1, Neg(x), y) : o1 \in Ops, x \in Atoms, y \in Atoms}
               \cup {Neg(Bin(o1, x, y)) : o1 \in Ops, x \in Atoms, y \in Atoms}
Small == {Num(1), Var("a"), Var("b"), Bin("+", Var("a"), Var("b")), Bin("*", Var("a"), Num(2))}
BindingBodies ==
  {Let("b", v, e) : v \in {Num(1), Var("a"), Bin("+", Var("a"), Num(1))}, e \in Small}
  \cup {Let("a", Bin("+", Var("a"), Num(1)), e) : e \in Small \ {Var("b"), Bin("+", Var("a"), Var("b"))}}      \* shadowing
  \cup {Let("b", Num(5), Let("f", Lam("a", Bin("+", Var("a"), Var("b"))), App(Var("f"), x))) : x \in {Num(1), Var("a")}}
  \cup {Let("b", Num(5), Let("f", Lam("b", Bin("*", Var("a"), Var("b"))), Let("b", Num(7), App(Var("f"), Var("b")))))}
  \cup {Let("b", Num(5), LetT(Tup3(x, y, Num(9)), e)) : x \in {Num(1), Var("b")}, y \in {Var("a"), Num(4)},
                                                      e \in {Bin("+", Var("a"), Var("b")), Bin("-", Var("c"), Var("a")), Var("b")}}
  \cup {Let("b", SetL(<<Num(1), Num(2)>>), MapD(Var("b"), Bin("+", Dot, Var("a"))))}
  \cup {Arrow(Bin("+", Var("a"), Num(1)), "b", e) : e \in Small}
  \* a binding nobody reads is still evaluated: wildcard and unused binders over succeeding and failing values
  \cup {Let(x, v, e) : x \in {"_", "b"}, v \in {Num(1), Fail, Var("a")}, e \in {Num(1), Var("a")}}
  \cup {Arrow(v, x, e) : x \in {"_", "b"}, v \in {Fail, Var("a")}, e \in {Num(1), Var("a")}}
CollBodies ==
  {ArrL(<<x, y>>) : x \in Atoms, y \in Atoms} \cup {ArrL(<<x>>) : x \in Atoms} \cup {ArrL(<<Bin("+", Var("a"), Num(1)), ArrL(<<Num(1)>>)>>)}
  \cup {MapD(s, b) : s \in {SetL(<<Num(1), Num(2), Var("a")>>), SetL(<<>>)}, b \in {Dot, Bin("+", Dot, Var("a")), Bin("*", Dot, Dot), Num(1), ArrL(<<Dot>>)}}
  \cup {WhereD(SetL(<<Num(1), Num(2), Var("a")>>), b) : b \in {Cmp("<", Dot, Var("a")), Cmp("=", Dot, Num(2)), Cmp("<", Num(1), Dot)}}
  \cup {MapD(MapD(SetL(<<Num(1), Var("a")>>), Bin("+", Dot, Num(1))), Bin("*", Dot, Var("a")))}
  \cup {MapD(SetL(<<Num(1), Num(2)>>), MapD(SetL(<<Num(3), Dot>>), Bin("+", Dot, Var("a"))))}          \* nested implicit binders
Conds == {Cmp("<", Var("a"), Num(3)), Cmp("=", Var("a"), Num(2)), Cmp("<", Num(3), Var("a")), Num(0), SetL(<<>>), Var("a")}
ControlBodies ==
  {Cond(c, t, f) : c \in Conds, t \in {Num(1), Var("a")}, f \in {Num(2), Bin("+", Var("a"), Num(1))}}
  \cup {And(c, t) : c \in Conds, t \in {Num(1), Cmp("<", Num(1), Var("a"))}}
  \cup {Or(c, t) : c \in Conds, t \in {Num(1), Cmp("<", Num(1), Var("a"))}}
  \cup {Cond(And(c, d), Num(1), Num(2)) : c \in Conds, d \in Conds}
  \cup {Or(And(c, Num(1)), Num(2)) : c \in Conds}
Bodies == CASE Mode = "arith" -> ArithBodies [] Mode = "binding" -> BindingBodies [] Mode = "collections" -> CollBodies [] OTHER -> ControlBodies
Seeds == UNION {Wrap(b) : b \in Bodies}

NoRule == "render"       \* no rewrite: the renderings of the program itself are compared
Init == /\ ast0 \in Seeds /\ ast1 = ast0 /\ rule = NoRule /\ done = FALSE
Rewrite == /\ rule = NoRule /\ ~done /\ UNCHANGED <<ast0, done>>
           /\ \E w \in All(ast0, <<>>, TRUE) : ast1' = w.e /\ rule' = w.r
Value(e) == Ev(e, <<>>)
Emit == /\ ~done /\ done' = TRUE /\ UNCHANGED <<ast0, ast1, rule>>
        /\ (IsSkip(Value(ast0)) \/ IsClo(Value(ast0)) \/
            PrintT(ToJson([spec |-> "CoreLang", rule |-> rule, a0 |-> ast0, a1 |-> ast1, val |-> Value(ast0)])))
Next == Rewrite \/ Emit
Spec == Init /\ [][Next]_vars

\* every rewrite preserves the meaning
Preserved == Value(ast1) = Value(ast0)
=============================================================================
