SPECIFICATION Spec
CONSTANTS Mode = "routesQ"
  Steps = 1
  AsIs = {"FallbackFullStd"}
INVARIANTS Confined
CHECK_DEADLOCK FALSE
