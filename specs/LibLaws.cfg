SPECIFICATION Spec
INVARIANTS Inverse CaseLaws FlatAssoc
CHECK_DEADLOCK FALSE
