SPECIFICATION Spec
INVARIANTS Inverse
CHECK_DEADLOCK FALSE
