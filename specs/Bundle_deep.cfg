SPECIFICATION Spec
CONSTANTS MaxEdges = 4
  Wide = TRUE
  AsIs = {}
INVARIANTS Commutes Complete Inside
CHECK_DEADLOCK FALSE
