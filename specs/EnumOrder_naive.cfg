SPECIFICATION Spec
CONSTANTS N = 4
  Naive = {"sum"}
INVARIANTS OrderFree
CHECK_DEADLOCK FALSE
