SPECIFICATION Spec
CONSTANTS G = 2
  Ops <- AllOps
  NoneDisc = {}
INVARIANTS NoRace ComputeAtMostOnce NoReadBeforePublish SerialEquivalence
PROPERTIES AllFinish
CHECK_DEADLOCK FALSE
