SPECIFICATION Spec
CONSTANTS
  Elems <- PoolThorough
  MaxLit = 2
  Depth = 0
  NLits = 2
  Steps = {"bin", "with", "without", "where", "coll", "reprint"}
INVARIANTS TypeOK Laws
PROPERTIES AppendOnly
CHECK_DEADLOCK FALSE
