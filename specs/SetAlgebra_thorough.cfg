SPECIFICATION Spec
CONSTANTS
  Elems <- PoolThorough
  MaxLit = 2
  Depth = 0
INVARIANTS TypeOK Laws
PROPERTIES AppendOnly
CHECK_DEADLOCK FALSE
