SPECIFICATION Spec
CONSTANTS
  Priors = {0, 1, 2, 3, 4, 5}
  RichB = "full"
INVARIANTS InsidePath Frame
CHECK_DEADLOCK FALSE
