---------------------------- MODULE ImportCache ----------------------------
(* The import cache (pkg/importcache, properties C16 / C10 / C11): goroutines compile files;   *)
(* compiling a file compiles its imports first; getOrAdd(key) is single-flight with an         *)
(* in-flight marker protected by a mutex and a condition variable.  One action per critical    *)
(* section of getOrAdd.  The graph of imports, the set of files that fail to compile and the   *)
(* root file of every goroutine are chosen nondeterministically in Init, so one TLC run        *)
(* covers ALL graphs on the given files.                                                     *)
(*                                                                                          *)
(* Named deviations (constants):                                                             *)
(*   OwnStackCheck = FALSE     the pinned commit: a file that re-enters its own in-flight key   *)
(*                             waits on it forever (import cycle hang)                       *)
(*   BroadcastOnAbandon = FALSE  as the code has it: when add() fails the in-flight marker is  *)
(*                             deleted WITHOUT cond.Broadcast(), so waiters are never woken    *)
EXTENDS Integers, Sequences, FiniteSets, TLC, Json

CONSTANTS Files, G, OwnStackCheck, BroadcastOnAbandon, AllowCycles

VARIABLES graph,    \* file -> set of imported files
          bad,      \* files whose own source fails to compile
          roots,    \* goroutine -> file
          cache,    \* file -> "absent" | "inflight" | "done"
          stack,    \* goroutine -> sequence of frames [f, todo, st]
          res,      \* goroutine -> "running" | "ok" | "error"
          waiting   \* goroutine -> blocked in cond.Wait()
vars == <<graph, bad, roots, cache, stack, res, waiting>>

RECURSIVE ReachN(_, _, _)
ReachN(g, S, n) == IF n = 0 THEN S ELSE ReachN(g, S \cup UNION {g[i] : i \in S}, n - 1)
Reach(g, f) == ReachN(g, g[f], Cardinality(Files))
CyclicFrom(g, f) == \E x \in {f} \cup Reach(g, f) : x \in Reach(g, x)
BadFrom(g, b, f) == ({f} \cup Reach(g, f)) \cap b # {}

Init == /\ graph \in [Files -> SUBSET Files]
        /\ (AllowCycles \/ \A f \in Files : f \notin Reach(graph, f))
        /\ bad \in SUBSET Files
        /\ roots \in [G -> Files]
        /\ cache = [f \in Files |-> "absent"]
        /\ stack = [g \in G |-> << [f |-> roots[g], todo |-> {}, st |-> "enter"] >>]
        /\ res = [g \in G |-> "running"]
        /\ waiting = [g \in G |-> FALSE]

Top(g) == stack[g][Len(stack[g])]
SetTop(g, fr) == [stack EXCEPT ![g] = [@ EXCEPT ![Len(@)] = fr]]
Pop(g) == [stack EXCEPT ![g] = SubSeq(@, 1, Len(@) - 1)]
OnStack(g, f) == \E i \in 1..Len(stack[g]) : stack[g][i].f = f /\ stack[g][i].st = "compiling"
Running(g) == res[g] = "running" /\ Len(stack[g]) > 0 /\ ~waiting[g]
Finished(g, outcome) == IF Len(stack[g]) = 1 THEN [res EXCEPT ![g] = outcome] ELSE res
U == UNCHANGED <<graph, bad, roots>>

\* the import-cycle check made before getOrAdd: a key on my own stack is an error
CycleError(g) == /\ Running(g) /\ Top(g).st = "enter" /\ OwnStackCheck /\ OnStack(g, Top(g).f)
                 /\ stack' = SetTop(g, [Top(g) EXCEPT !.st = "failed"]) /\ UNCHANGED <<cache, res, waiting>> /\ U
\* getOrAdd under the mutex: hit
Hit(g) == /\ Running(g) /\ Top(g).st = "enter" /\ ~(OwnStackCheck /\ OnStack(g, Top(g).f))
          /\ cache[Top(g).f] = "done"
          /\ stack' = Pop(g) /\ res' = Finished(g, "ok") /\ UNCHANGED <<cache, waiting>> /\ U
\* ... absent: claim it (in-flight marker), release the mutex and start compiling
Claim(g) == /\ Running(g) /\ Top(g).st = "enter" /\ ~(OwnStackCheck /\ OnStack(g, Top(g).f))
            /\ cache[Top(g).f] = "absent"
            /\ cache' = [cache EXCEPT ![Top(g).f] = "inflight"]
            /\ stack' = SetTop(g, [f |-> Top(g).f, todo |-> graph[Top(g).f], st |-> "compiling"])
            /\ UNCHANGED <<res, waiting>> /\ U
\* ... in flight: cond.Wait() (also when the claim is the goroutine's own, if there is no stack check)
Wait(g) == /\ Running(g) /\ Top(g).st = "enter" /\ ~(OwnStackCheck /\ OnStack(g, Top(g).f))
           /\ cache[Top(g).f] = "inflight"
           /\ waiting' = [waiting EXCEPT ![g] = TRUE] /\ UNCHANGED <<cache, stack, res>> /\ U
\* compiling: descend into the next import
Descend(g) == /\ Running(g) /\ Top(g).st = "compiling" /\ Top(g).todo # {}
              /\ \E i \in Top(g).todo :
                   stack' = [stack EXCEPT ![g] = Append(SetTop(g, [Top(g) EXCEPT !.todo = @ \ {i}])[g],
                                                       [f |-> i, todo |-> {}, st |-> "enter"])]
              /\ UNCHANGED <<cache, res, waiting>> /\ U
\* compiling finished: publish and broadcast, or fail
Publish(g) == /\ Running(g) /\ Top(g).st = "compiling" /\ Top(g).todo = {} /\ Top(g).f \notin bad
              /\ cache' = [cache EXCEPT ![Top(g).f] = "done"]
              /\ waiting' = [h \in G |-> FALSE]                       \* cond.Broadcast()
              /\ stack' = Pop(g) /\ res' = Finished(g, "ok") /\ U
FailOwn(g) == /\ Running(g) /\ Top(g).st = "compiling" /\ Top(g).todo = {} /\ Top(g).f \in bad
              /\ stack' = SetTop(g, [Top(g) EXCEPT !.st = "failed"]) /\ UNCHANGED <<cache, res, waiting>> /\ U
\* an error propagates: the failed frame is popped; a frame that was compiling abandons its claim
Abandon(g) == /\ Running(g) /\ Top(g).st = "failed"
              /\ LET below == IF Len(stack[g]) > 1 THEN stack[g][Len(stack[g]) - 1] ELSE [f |-> "", todo |-> {}, st |-> "none"]
                     wasClaim == cache[Top(g).f] = "inflight" /\ ~\E i \in 1..(Len(stack[g]) - 1) : stack[g][i].f = Top(g).f /\ stack[g][i].st = "compiling"
                 IN /\ cache' = IF wasClaim THEN [cache EXCEPT ![Top(g).f] = "absent"] ELSE cache
                    /\ waiting' = IF wasClaim /\ BroadcastOnAbandon THEN [h \in G |-> FALSE] ELSE waiting
                    /\ IF Len(stack[g]) = 1
                       THEN stack' = Pop(g) /\ res' = [res EXCEPT ![g] = "error"]
                       ELSE /\ stack' = [stack EXCEPT ![g] = Append(SubSeq(@, 1, Len(@) - 2), [below EXCEPT !.st = "failed"])]
                            /\ UNCHANGED res
              /\ U

Next == \E g \in G : CycleError(g) \/ Hit(g) \/ Claim(g) \/ Wait(g) \/ Descend(g) \/ Publish(g) \/ FailOwn(g) \/ Abandon(g)
Spec == Init /\ [][Next]_vars /\ WF_vars(Next)

\* scenarios for the trace recorder: every initial state (graph, failing files, roots) is printed once
ScenNext == /\ \A g \in G : Len(stack[g]) = 1 /\ stack[g][1].st = "enter"
            /\ stack' = [g \in G |-> <<>>] /\ UNCHANGED <<graph, bad, roots, cache, res, waiting>>
            /\ PrintT(ToJson([spec |-> "ImportCache", graph |-> graph, bad |-> bad, roots |-> roots]))
ScenSpec == Init /\ [][ScenNext]_vars

\* ---- properties ------------------------------------------------------------------------------
TypeOK == /\ \A f \in Files : cache[f] \in {"absent", "inflight", "done"}
          /\ \A g \in G : res[g] \in {"running", "ok", "error"}
\* at most one goroutine compiles a given file at a time
SingleFlight == \A f \in Files : Cardinality({g \in G : OnStack(g, f)}) <= 1
InflightHasOwner == \A f \in Files : cache[f] = "inflight" => \E g \in G : \E i \in 1..Len(stack[g]) : stack[g][i].f = f /\ stack[g][i].st \in {"compiling", "failed"}
\* outcomes are right: error exactly when a cycle or a bad file is reachable from the root
RightOutcome == \A g \in G : /\ res[g] = "ok" => ~CyclicFrom(graph, roots[g]) /\ ~BadFrom(graph, bad, roots[g])
                             /\ res[g] = "error" => CyclicFrom(graph, roots[g]) \/ BadFrom(graph, bad, roots[g])
\* every compile ends (in a value or an error): never a hang
Done == \A g \in G : res[g] # "running"
Terminates == <>Done
=============================================================================
