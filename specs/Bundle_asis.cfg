SPECIFICATION Spec
CONSTANTS MaxEdges = 2
  Wide = FALSE
  AsIs = {"NestedSentinelUnderModule"}
INVARIANTS Commutes
CHECK_DEADLOCK FALSE
