SPECIFICATION Spec
CONSTANTS Deep = TRUE
CHECK_DEADLOCK FALSE
