SPECIFICATION Spec
CONSTANTS
  Big = TRUE
  Gen = FALSE
CHECK_DEADLOCK FALSE
