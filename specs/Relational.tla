----------------------------- MODULE Relational -----------------------------
(* Property C04: the join family, nest / unnest and rank on relations.                       *)
(*   A <&> B == { t + u : t \in A, u \in B, t and u agree on every common attribute }        *)
(* and the other seven operators are the documented projections of that join over the       *)
(* partition x (left only), y (common), z (right only) of the two headings.  A relation is   *)
(* any set of tuples with one heading -- arrays, strings and dicts are relations over        *)
(* {@, @item}, {@, @char}, {@, @value}.                                                      *)
EXTENDS ArraiValue, SequencesExt

CONSTANTS AttrNames,   \* attribute alphabet
          MaxAttrs,    \* attributes per heading
          MaxRows,     \* rows per relation
          Depth,       \* 0: all operators on a pair; >0: chains whose operands are earlier results
          Fork         \* TRUE: four literals A B C D, then P = A <&> B, X = P <&> C, Y = P <&> D (branching history)

VARIABLES prog, env, done
vars == <<prog, env, done>>

Cell(a) == IF a = "ch" THEN {N(97), N(98)} ELSE IF a = "at" THEN {N(0), N(1)} ELSE {N(1), N(2)}
Headings == {h \in SUBSET AttrNames : Cardinality(h) \in 1..MaxAttrs
                 /\ Cardinality(h \cap {"ch", "it", "va"}) <= 1}          \* at most one sugar value attr
TuplesOf(h) == {T(f) : f \in {g \in [h -> UNION {Cell(a) : a \in h}] : \A a \in h : g[a] \in Cell(a)}}
RelsOf(h) == {S(x) : x \in {y \in SUBSET TuplesOf(h) : Cardinality(y) \in 1..MaxRows}}
Rels == UNION {RelsOf(h) : h \in Headings} \cup {S({})}

JoinOps == {"<&>", "<->", "-&-", "---", "-&>", "<&-", "-->", "<--"}

\* rank: each row gets the number of rows whose key is strictly smaller (numeric keys only, so
\* that the answer does not depend on which total order `<` is)
NumAttrs(A) == {a \in Heading(A) : \A t \in A.s : IsInt(t.t[a])}
Rank(A, k) == S({MergeT(t, Mk1("r", N(Cardinality({u \in A.s : u.t[k].n < t.t[k].n})))) : t \in A.s})

NestArgs(A) == {attrs \in SUBSET Heading(A) : attrs # {} /\ attrs # Heading(A)}
PairResults(A, B) ==
  [ joins |-> {[op |-> op, r |-> JoinOp(op, A, B)] : op \in JoinOps},
    nests |-> {[attrs |-> attrs, r |-> Nest(A, attrs, "n"), back |-> Unnest(Nest(A, attrs, "n"), "n")] : attrs \in NestArgs(A)},
    ranks |-> {[k |-> k, r |-> Rank(A, k)] : k \in NumAttrs(A) \ {"r"}} ]

Init == prog = <<>> /\ env = <<>> /\ done = FALSE
NLits == IF Fork THEN 4 ELSE 2
\* fork histories: one-row relations over the two-attribute headings
ForkRels == UNION {{S({t}) : t \in {u \in TuplesOf(h) : MaxRows > 1 \/ \A a \in h \ {"d"} : u.t[a] = N(1)}} : h \in {g \in Headings : Cardinality(g) = 2}}
Lit == /\ Len(prog) < NLits
       /\ \E v \in (IF Fork THEN ForkRels ELSE Rels) : prog' = Append(prog, [k |-> "lit"]) /\ env' = Append(env, v)
       /\ UNCHANGED done
AllOps == /\ Depth = 0 /\ ~Fork /\ Len(prog) = 2
          /\ prog' = Append(prog, [k |-> "allops"])
          /\ env'  = Append(env, PairResults(env[1], env[2]))
          /\ UNCHANGED done
Full == IF Fork THEN Len(prog) = 7 ELSE IF Depth = 0 THEN Len(prog) = 3 ELSE Len(prog) = 2 + Depth
Ix == 1..Len(env)
StepJoin == \E op \in JoinOps \ {"---"}, i \in Ix, j \in Ix :
              /\ prog' = Append(prog, [k |-> "join", op |-> op, i |-> i, j |-> j])
              /\ env'  = Append(env, JoinOp(op, env[i], env[j]))
StepNest == \E i \in Ix : \E attrs \in NestArgs(env[i]) : "n" \notin Heading(env[i])
              /\ prog' = Append(prog, [k |-> "nest", i |-> i, attrs |-> attrs])
              /\ env'  = Append(env, Nest(env[i], attrs, "n"))
StepUnnest == \E i \in Ix : /\ "n" \in Heading(env[i]) /\ \A t \in env[i].s : IsSet(t.t["n"]) /\ IsRel(t.t["n"])
                               /\ \A u \in t.t["n"].s : Attrs(u) \cap (Attrs(t) \ {"n"}) = {}
              /\ prog' = Append(prog, [k |-> "unnest", i |-> i])
              /\ env'  = Append(env, Unnest(env[i], "n"))
ForkJoin(i, j) == /\ prog' = Append(prog, [k |-> "join", op |-> "<&>", i |-> i, j |-> j])
                  /\ env'  = Append(env, JoinOp("<&>", env[i], env[j]))
ForkStep == /\ Fork /\ Len(prog) >= 4 /\ ~Full
            /\ CASE Len(prog) = 4 -> ForkJoin(1, 2)
                 [] Len(prog) = 5 -> ForkJoin(5, 3)
                 [] Len(prog) = 6 -> ForkJoin(5, 4)
            /\ UNCHANGED done
Step == /\ Depth > 0 /\ ~Fork /\ Len(prog) >= 2 /\ ~Full
        /\ (StepJoin \/ StepNest \/ StepUnnest)
        /\ UNCHANGED done
Emit == /\ Full /\ ~done /\ done' = TRUE /\ UNCHANGED <<prog, env>>
        /\ PrintT(ToJson([spec |-> "Relational", prog |-> prog, env |-> env]))
Next == Lit \/ AllOps \/ Step \/ ForkStep \/ Emit
Spec == Init /\ [][Next]_vars

TypeOK == Len(prog) = Len(env) /\ \A i \in DOMAIN env : prog[i].k # "allops" => IsSet(env[i])
\* sanity laws for the oracle -------------------------------------------------------------
Laws == (Len(env) = 3 /\ prog[3].k = "allops") =>
          LET r == env[3]  A == env[1]  B == env[2]
              J == (CHOOSE q \in r.joins : q.op = "<&>").r IN
          /\ IsRel(J)
          /\ (Heading(A) = Heading(B) /\ A.s # {} /\ B.s # {} => J = S(A.s \cap B.s))   \* same heading: intersection
          /\ (Heading(A) \cap Heading(B) = {} => Cardinality(J.s) = Cardinality(A.s) * Cardinality(B.s))
          /\ JoinOp("<&>", A, A) = A
          /\ \A q \in r.joins : q.op \notin {"<&>", "---"} => q.r = Project(J, Heading(q.r)) \/ J.s = {}
          /\ \A q \in r.nests : q.back = A                                         \* unnest inverts nest
          /\ \A q \in r.nests : Cardinality(UNION {t.t["n"].s : t \in q.r.s}) <= Cardinality(A.s)
          /\ \A q \in r.ranks : Cardinality(q.r.s) = Cardinality(A.s)
=============================================================================
