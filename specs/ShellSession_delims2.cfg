SPECIFICATION Spec
CONSTANTS MaxLines = 3
  LinePool = "delims"
INVARIANTS StackShape NoStuck ResetOnSubmit
CHECK_DEADLOCK FALSE
