SPECIFICATION Spec
CONSTANTS MaxLines = 4
  LinePool = "session"
INVARIANTS StackShape NoStuck ResetOnSubmit
PROPERTIES FailedKeepsScope UnsetRemoves
CHECK_DEADLOCK FALSE
