------------------------- MODULE ImportCacheTrace -------------------------
(* Trace validation for the import cache (C16 / C11): executions recorded from the real        *)
(* pkg/importcache.getOrAdd (hook events hit / wait / claim / publish / abandon, emitted while   *)
(* the cache mutex is held, so they are totally ordered) must be behaviours of ImportCache.       *)
(* Every recorded line is consumed by exactly one spec action with its goroutine and file bound;   *)
(* the steps the code does not log - descending into an import, the own-stack cycle check, a      *)
(* file's own compile error, an error propagating through a frame that holds no claim - are       *)
(* silent steps TLC infers.  `init` lines start an execution: they carry the import graph, the    *)
(* failing files and each goroutine's root file.  The trace is accepted iff some behaviour        *)
(* consumes every line: NotAllConsumed is given to TLC as an invariant, and its *violation* is    *)
(* the acceptance (the counterexample is the witness); every safety property of ImportCache is    *)
(* evaluated in every state on the way.                                                       *)
EXTENDS ImportCache, Json

VARIABLES l
tvars == <<vars, l>>

Trace == ndJsonDeserialize("ictrace.ndjson")
ev == Trace[l]
IsEvent(e) == l <= Len(Trace) /\ Trace[l].ev = e /\ l' = l + 1

FilesOf(s) == {s[i] : i \in DOMAIN s}
ConfigFrom(line) ==
  /\ graph' = [f \in Files |-> IF f \in DOMAIN line.graph THEN FilesOf(line.graph[f]) ELSE {}]
  /\ bad' = FilesOf(line.bad)
  /\ roots' = [g \in G |-> line.roots[g]]
  /\ cache' = [f \in Files |-> "absent"]
  /\ stack' = [g \in G |-> << [f |-> line.roots[g], todo |-> {}, st |-> "enter"] >>]
  /\ res' = [g \in G |-> "running"]
  /\ waiting' = [g \in G |-> FALSE]

TraceInit == /\ l = 1 /\ graph = [f \in Files |-> {}] /\ bad = {} /\ roots = [g \in G |-> CHOOSE f \in Files : TRUE]
             /\ cache = [f \in Files |-> "absent"] /\ stack = [g \in G |-> <<>>]
             /\ res = [g \in G |-> "ok"] /\ waiting = [g \in G |-> FALSE]
\* a new execution starts only when the previous one is over
TStart == IsEvent("init") /\ (\A g \in G : res[g] # "running") /\ ConfigFrom(ev)

On(g, f) == Running(g) /\ Top(g).f = f
THit     == IsEvent("hit")     /\ On(ev.g, ev.f) /\ Hit(ev.g)
TWait    == IsEvent("wait")    /\ On(ev.g, ev.f) /\ Wait(ev.g)
TClaim   == IsEvent("claim")   /\ On(ev.g, ev.f) /\ Claim(ev.g)
TPublish == IsEvent("publish") /\ On(ev.g, ev.f) /\ Publish(ev.g)
ClaimOf(g) == cache[Top(g).f] = "inflight" /\ ~\E i \in 1..(Len(stack[g]) - 1) : stack[g][i].f = Top(g).f /\ stack[g][i].st = "compiling"
TAbandon == IsEvent("abandon") /\ On(ev.g, ev.f) /\ Top(ev.g).st = "failed" /\ ClaimOf(ev.g) /\ Abandon(ev.g)
\* what the code does without logging
Silent == /\ UNCHANGED l
          /\ \E g \in G : \/ Descend(g) \/ CycleError(g) \/ FailOwn(g)
                          \/ (Running(g) /\ Top(g).st = "failed" /\ ~ClaimOf(g) /\ Abandon(g))
TraceNext == TStart \/ THit \/ TWait \/ TClaim \/ TPublish \/ TAbandon \/ Silent
TraceSpec == TraceInit /\ [][TraceNext]_tvars

TraceInv == TypeOK /\ SingleFlight /\ InflightHasOwner
\* given to TLC as an invariant: its violation means that the whole trace was consumed and every
\* goroutine of the last execution finished
NotAllConsumed == ~(l = Len(Trace) + 1 /\ \A g \in G : res[g] # "running")
=============================================================================
