SPECIFICATION Spec
CONSTANTS Deep = FALSE
CHECK_DEADLOCK FALSE
