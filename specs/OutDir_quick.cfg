SPECIFICATION Spec
CONSTANTS
  Priors = {0, 2, 3, 5}
  RichB = FALSE
INVARIANTS InsidePath Frame
CHECK_DEADLOCK FALSE
