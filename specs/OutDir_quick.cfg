SPECIFICATION Spec
CONSTANTS
  Priors = {0, 2, 3, 5}
  RichB = "dicts"
INVARIANTS InsidePath Frame
CHECK_DEADLOCK FALSE
