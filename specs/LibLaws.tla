------------------------------- MODULE LibLaws -------------------------------
(* Beyond the listed properties: small library functions whose meaning is a one-line definition.  *)
(*   //bits.mask(S)   = the number whose binary digits are the members of S                       *)
(*   //bits.set(n)    = the positions of the 1-digits of n            (inverse of mask)            *)
(*   //dict(t)        = {name: value} for the attributes of the tuple t (one level)                *)
(*   //tuple(d)       = the tuple with an attribute per string key of d (inverse of dict)          *)
(*   //rel.union(SS)  = the union of the members of SS                                           *)
(*   //seq.concat(q)  = the members of the array q laid end to end (zero-based members)        *)
(*   //str.upper(s), //str.lower(s) = s with every ASCII letter mapped, everything else kept     *)
(* TLC checks the inverse laws on the definitions and emits every input with its expected output.   *)
EXTENDS ArraiValue

VARIABLES case, done
vars == <<case, done>>

RECURSIVE Pow2(_)
Pow2(i) == IF i = 0 THEN 1 ELSE 2 * Pow2(i - 1)
RECURSIVE Mask(_)
Mask(bits) == IF bits = {} THEN 0 ELSE LET i == CHOOSE i \in bits : TRUE IN Pow2(i) + Mask(bits \ {i})
BitsOf(n) == {i \in 0..6 : (n \div Pow2(i)) % 2 = 1}

Names == {"a", "b", "k"}
Vals == {N(1), N(2), S({N(1)}), Mk1("x", N(1))}
Tuples == {T(f) : f \in UNION {[ns -> Vals] : ns \in SUBSET Names}}
KeyStr(n) == Str(<<CASE n = "a" -> 97 [] n = "b" -> 98 [] OTHER -> 107>>, 0)
DictOf(t) == Dict([kk \in {KeyStr(n) : n \in Attrs(t)} |-> t.t[CHOOSE n \in Attrs(t) : KeyStr(n) = kk]])
Members == {S({}), S({N(1)}), S({N(1), N(2)}), S({N(3)}), Arr(<<N(1)>>, 0), Str(<<97>>, 0)}

\* concatenation of zero-based sequences, from the definition of ++ (shift by the count so far)
SeqsUpTo(X, n) == UNION {[1..k -> X] : k \in 0..n}
RECURSIVE Flat(_)
Flat(qq) == IF qq = <<>> THEN <<>> ELSE Head(qq) \o Flat(Tail(qq))
ArrParts == {<<>>, <<N(1)>>, <<N(2), N(3)>>, <<S({})>>}
StrParts == {<<>>, <<97>>, <<98, 67>>}
Letters  == {65, 90, 97, 122, 48, 64, 91, 96, 123}       \* A Z a z 0 @ [ ` {
Up(c)  == IF c \in 97..122 THEN c - 32 ELSE c
Low(c) == IF c \in 65..90 THEN c + 32 ELSE c
StrMap(q, F(_)) == [i \in DOMAIN q |-> F(q[i])]

Cases == {[f |-> "seq.concat", arg |-> Arr([i \in DOMAIN qq |-> Arr(qq[i], 0)], 0), out |-> Arr(Flat(qq), 0)] : qq \in SeqsUpTo(ArrParts, 3)}
         \cup {[f |-> "seq.concat", arg |-> Arr([i \in DOMAIN qq |-> Str(qq[i], 0)], 0), out |-> Str(Flat(qq), 0)] : qq \in SeqsUpTo(StrParts, 3)}
         \cup {[f |-> "str.upper", arg |-> Str(q, 0), out |-> Str(StrMap(q, Up), 0)] : q \in SeqsUpTo(Letters, 2)}
         \cup {[f |-> "str.lower", arg |-> Str(q, 0), out |-> Str(StrMap(q, Low), 0)] : q \in SeqsUpTo(Letters, 2)}
         \cup {[f |-> "bits.mask", arg |-> S({N(i) : i \in s}), out |-> N(Mask(s))] : s \in SUBSET (0..5)}
         \cup {[f |-> "bits.set", arg |-> N(n), out |-> S({N(i) : i \in BitsOf(n)})] : n \in 0..70}
         \cup {[f |-> "dict", arg |-> t, out |-> DictOf(t)] : t \in Tuples}
         \cup {[f |-> "tuple", arg |-> DictOf(t), out |-> t] : t \in Tuples}
         \cup {[f |-> "rel.union", arg |-> S(ss), out |-> S(UNION {m.s : m \in ss})] : ss \in SUBSET Members}

Init == case \in Cases /\ done = FALSE
Emit == ~done /\ done' = TRUE /\ UNCHANGED case /\ PrintT(ToJson([spec |-> "LibLaws", c |-> case]))
Next == Emit
Spec == Init /\ [][Next]_vars

\* the definitions are inverse to each other
Inverse == /\ \A s \in SUBSET (0..5) : BitsOf(Mask(s)) = s
           /\ \A n \in 0..70 : Mask(BitsOf(n)) = n
\* upper / lower are idempotent, and agree with each other on letters
CaseLaws == \A c \in Letters : Up(Up(c)) = Up(c) /\ Low(Low(c)) = Low(c) /\ Up(Low(c)) = Up(c) /\ Low(Up(c)) = Low(c)
\* concatenation is associative on the parts
FlatAssoc == \A a, b, c \in ArrParts : Flat(<<Flat(<<a, b>>), c>>) = Flat(<<a, Flat(<<b, c>>)>>)
=============================================================================
