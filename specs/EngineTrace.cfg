SPECIFICATION TraceSpec
CONSTANTS
  Clients = {"c1", "c2", "c3"}
  MaxOps = 1000
  MaxWatchers = 64
  FailAt = 2
  Pipelined = TRUE
  AsIs = FALSE
INVARIANTS TraceInv
POSTCONDITION TraceAccepted
CHECK_DEADLOCK FALSE
