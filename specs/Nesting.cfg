SPECIFICATION NSpec
CONSTANTS
  Elems <- PoolQuick
  MaxLit = 2
  Depth = 0
  NLits = 2
  Steps = {"bin"}
INVARIANTS Differ
CHECK_DEADLOCK FALSE
