----------------------------- MODULE TestRunner -----------------------------
(* Property C20: `arrai test` succeeds iff every leaf reached through tuples, arrays and        *)
(* dictionaries of every *_test.arrai file is the literal true; each leaf is reported once and  *)
(* the summary counts add up to the number of leaves.  A result tree is an arr.ai value; which   *)
(* values are containers is decided on the DENOTATION (an array is a set of (@, @item) tuples    *)
(* with distinct integer indices, a dictionary a set of (@, @value) tuples).                   *)
EXTENDS ArraiValue, SequencesExt

VARIABLES case, done
vars == <<case, done>>

IsArrayV(v) == IsSet(v) /\ v.s # {} /\ (\A t \in v.s : IsSugarT(t) /\ ValAttr(t) = "it" /\ IsInt(At(t)))
               /\ \A t, u \in v.s : At(t) = At(u) => t = u
IsDictV(v)  == IsSet(v) /\ v.s # {} /\ \A t \in v.s : IsSugarT(t) /\ ValAttr(t) = "va"
RECURSIVE Leaves(_)
\* the multiset of leaves as a set of <<path-ish id, value>> (ids only make equal leaves distinct)
Leaves(v) ==
  IF IsTup(v) THEN UNION {{<<<<a>> \o q[1], q[2]>> : q \in Leaves(v.t[a])} : a \in Attrs(v)}
  ELSE IF IsArrayV(v) \/ IsDictV(v) THEN UNION {{<<<<t>> \o q[1], q[2]>> : q \in Leaves(Val(t))} : t \in v.s}
  ELSE {<<<<>>, v>>}
Outcome(x) == IF x = TrueV THEN "pass" ELSE IF x = FalseV THEN "fail" ELSE "invalid"
Census(v) == LET ls == Leaves(v) IN
  [pass |-> Cardinality({q \in ls : Outcome(q[2]) = "pass"}),
   fail |-> Cardinality({q \in ls : Outcome(q[2]) = "fail"}),
   invalid |-> Cardinality({q \in ls : Outcome(q[2]) = "invalid"}),
   total |-> Cardinality(ls)]

\* ---- result trees --------------------------------------------------------------------------
L == {TrueV, FalseV, N(1), Str(<<120>>, 0), S({N(1)}), S({Mk1("a", N(1))}), EmptyT}
C1(x) == {Mk1("a", x), Arr(<<x>>, 0), Arr(<<x>>, 2), Dict([k \in {Str(<<107>>, 0)} |-> x])}
C2(x, y) == {Mk2("a", x, "b", y), Arr(<<x, y>>, 0), Arr(<<x, Hole, y>>, 0), Arr(<<x, y>>, 1),
             S({Ent(N(1), x), Ent(Str(<<107>>, 0), y)}), S({Ent(N(1), x), Ent(N(1), y)})}
T1 == L \cup UNION {C1(x) : x \in L} \cup UNION {C2(x, y) : x \in L, y \in L}
T2 == T1 \cup UNION {C1(x) : x \in T1} \cup UNION {C2(x, y) : x \in T1, y \in {TrueV, FalseV, N(1)}}
                 \cup UNION {C2(y, x) : x \in T1, y \in {TrueV}}

\* ---- layouts -------------------------------------------------------------------------------
\* what else is in the tree of test files next to /t/main_test.arrai (which holds the result tree)
Layouts == {"single", "nested-true", "nested-false", "hidden-false", "nontest-false", "broken", "only-hidden", "hidden-file"}
Extra(layout) ==       \* census contributed by the other files; err = the run cannot complete
  CASE layout = "nested-true"  -> [pass |-> 1, fail |-> 0, invalid |-> 0, total |-> 1, err |-> FALSE]
    [] layout = "nested-false" -> [pass |-> 0, fail |-> 1, invalid |-> 0, total |-> 1, err |-> FALSE]
    \* a hidden FILE is still a *_test.arrai file (only hidden directories are skipped); its later siblings count too
    [] layout = "hidden-file"  -> [pass |-> 0, fail |-> 2, invalid |-> 1, total |-> 3, err |-> FALSE]
    [] layout = "broken"       -> [pass |-> 0, fail |-> 0, invalid |-> 0, total |-> 0, err |-> TRUE]
    [] OTHER                   -> [pass |-> 0, fail |-> 0, invalid |-> 0, total |-> 0, err |-> FALSE]
Expected(v, layout) ==
  LET c == Census(v)  x == Extra(layout) IN
  IF layout = "only-hidden" THEN [err |-> TRUE, ok |-> FALSE, pass |-> 0, fail |-> 0, invalid |-> 0, total |-> 0]
  ELSE [err |-> x.err, pass |-> c.pass + x.pass, fail |-> c.fail + x.fail, invalid |-> c.invalid + x.invalid,
        total |-> c.total + x.total,
        ok |-> ~x.err /\ c.fail + x.fail + c.invalid + x.invalid = 0]

Init == case = [k |-> "none"] /\ done = FALSE
Pick(Trees, Lays) == /\ case.k = "none" /\ UNCHANGED done
        /\ \E v \in Trees, layout \in Lays :
             case' = [k |-> "test", v |-> v, layout |-> layout, exp |-> Expected(v, layout)]
Emit == /\ case.k # "none" /\ ~done /\ done' = TRUE /\ UNCHANGED case
        /\ PrintT(ToJson([spec |-> "TestRunner", c |-> case]))
NextQ == Pick(T1, Layouts) \/ Emit
NextT == Pick(T2, {"single", "nested-false"}) \/ Pick(T1, Layouts) \/ Emit
SpecQ == Init /\ [][NextQ]_vars
SpecT == Init /\ [][NextT]_vars

\* the counts add up, and the run passes exactly when every leaf is true
AddsUp == case.k = "test" /\ ~case.exp.err => case.exp.pass + case.exp.fail + case.exp.invalid = case.exp.total
PassIffAllTrue == case.k = "test" /\ case.layout = "single" =>
                     (case.exp.ok <=> \A q \in Leaves(case.v) : q[2] = TrueV)
=============================================================================
