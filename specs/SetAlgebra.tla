----------------------------- MODULE SetAlgebra -----------------------------
(* Sessions of set-algebra operators over arr.ai values (properties C01, C02, C03, C12).     *)
(* "The program is the state": prog is a sequence of let-bindings, env[i] is the denotation  *)
(* of binding i.  Every representation arr.ai has for a set (string, array, bytes, dict,     *)
(* relation, generic, union, empty, true) denotes a plain set here, so each operator is its  *)
(* mathematical definition and equality is TLA+ equality.                                   *)
EXTENDS ArraiValue, SequencesExt

CONSTANTS Elems,      \* pool of candidate members (values)
          MaxLit,     \* literals are subsets of Elems with at most MaxLit members
          Depth,      \* derived steps after the literals; 0 = "all operators on the pair"
          NLits,      \* number of literals a program starts with (2, or 1 for branching histories)
          Steps       \* which derived step kinds are enabled

VARIABLES prog, env,
          done        \* the finished program has been handed to the replay harness
vars == <<prog, env, done>>

Lits == {S(x) : x \in {y \in SUBSET Elems : Cardinality(y) <= MaxLit}}

BinOps == {"|", "&", "&~", "~~"}
ApplyBin(op, a, b) ==
  CASE op = "|"  -> Union(a, b)
    [] op = "&"  -> Inter(a, b)
    [] op = "&~" -> Diff(a, b)
    [] op = "~~" -> SymDiff(a, b)

\* every operator of the family applied to the pair (a, b); b also supplies single elements,
\* predicate sets and collapse sets, so that one case line decides ~25 operator applications.
PairResults(a, b) ==
  [ u    |-> Union(a, b),  i |-> Inter(a, b),  d |-> Diff(a, b),  x |-> SymDiff(a, b),
    sub  |-> Bool(SubsetNeq(a, b)),  sube |-> Bool(SubsetEq(a, b)),
    sup  |-> Bool(SubsetNeq(b, a)),  supe |-> Bool(SubsetEq(b, a)),
    cmp  |-> Bool(SubsetNeq(a, b) \/ SubsetNeq(b, a)),
    cmpe |-> Bool(SubsetEq(a, b) \/ SubsetEq(b, a)),
    eq   |-> Bool(a = b),
    cnt  |-> N(Count(a)),
    pow  |-> IF Count(a) <= 3 THEN Pow(a) ELSE Err,
    el   |-> {[e |-> e, w |-> With(a, e), wo |-> Without(a, e), m |-> Bool(Member(e, a))] : e \in b.s},
    whin  |-> Where(a, LAMBDA v : v \in b.s),
    whout |-> Where(a, LAMBDA v : v \notin b.s),
    wrap  |-> Map(a, LAMBDA v : S({v})),
    attr  |-> Map(a, LAMBDA v : Mk1("v", v)),
    coll  |-> Map(a, LAMBDA v : IF v \in b.s THEN N(1) ELSE v) ]

Init == prog = <<>> /\ env = <<>> /\ done = FALSE

Lit == /\ Len(prog) < NLits
       /\ \E v \in Lits : /\ prog' = Append(prog, [k |-> "lit"])
                          /\ env'  = Append(env, v)
       /\ UNCHANGED done

AllOps == /\ Depth = 0 /\ NLits = 2 /\ Len(prog) = 2
          /\ prog' = Append(prog, [k |-> "allops", i |-> 1, j |-> 2])
          /\ env'  = Append(env, PairResults(env[1], env[2]))
          /\ UNCHANGED done

Full == IF Depth = 0 THEN Len(prog) = 3 ELSE Len(prog) = NLits + Depth
Ix   == 1..Len(env)

StepBin == \E op \in BinOps, i \in Ix, j \in Ix :
              /\ prog' = Append(prog, [k |-> "bin", op |-> op, i |-> i, j |-> j])
              /\ env'  = Append(env, ApplyBin(op, env[i], env[j]))
StepWith == \E i \in Ix, e \in Elems :
              /\ prog' = Append(prog, [k |-> "with", i |-> i, e |-> e])
              /\ env'  = Append(env, With(env[i], e))
StepWithout == \E i \in Ix, e \in Elems :
              /\ prog' = Append(prog, [k |-> "without", i |-> i, e |-> e])
              /\ env'  = Append(env, Without(env[i], e))
StepWhere == \E i \in Ix, j \in Ix, neg \in BOOLEAN :
              /\ prog' = Append(prog, [k |-> "where", i |-> i, j |-> j, neg |-> neg])
              /\ env'  = Append(env, Where(env[i], LAMBDA v : (v \in env[j].s) # neg))
StepColl == \E i \in Ix, j \in Ix :
              /\ prog' = Append(prog, [k |-> "coll", i |-> i, j |-> j])
              /\ env'  = Append(env, Map(env[i], LAMBDA v : IF v \in env[j].s THEN N(1) ELSE v))
\* printing then parsing a value is the identity on denotations (C12)
StepReprint == \E i \in Ix :
              /\ prog' = Append(prog, [k |-> "reprint", i |-> i])
              /\ env'  = Append(env, env[i])

Step == /\ Depth > 0 /\ Len(prog) >= NLits /\ ~Full
        /\ \/ "bin" \in Steps /\ StepBin
           \/ "with" \in Steps /\ StepWith
           \/ "without" \in Steps /\ StepWithout
           \/ "where" \in Steps /\ StepWhere
           \/ "coll" \in Steps /\ StepColl
           \/ "reprint" \in Steps /\ StepReprint
        /\ UNCHANGED done

\* Emission happens when a finished program is *expanded*: exactly once per distinct program in
\* exhaustive search, exactly once per behaviour in simulation (only chosen states are expanded).
Emit == /\ Full /\ ~done
        /\ done' = TRUE /\ UNCHANGED <<prog, env>>
        /\ PrintT(ToJson([spec |-> "SetAlgebra", prog |-> prog, env |-> env]))

Next == Lit \/ AllOps \/ Step \/ Emit
Spec == Init /\ [][Next]_vars

\* ---- properties of the specification itself ---------------------------------------------
IsValue(v) == IsNum(v) \/ IsTup(v) \/ IsSet(v)
TypeOK == /\ Len(prog) = Len(env)
          /\ \A i \in DOMAIN prog : prog[i].k \in {"lit", "allops", "bin", "with", "without", "where", "coll", "reprint"}
          /\ \A i \in DOMAIN env : prog[i].k # "allops" => IsSet(env[i])
\* immutability at the level of the model: a binding never changes once made (C03)
AppendOnly == [][IsPrefix(env, env')]_vars
\* sanity laws that would expose a wrong oracle before anything is replayed
Laws == (Len(env) = 3 /\ prog[3].k = "allops") =>
          LET r == env[3]  a == env[1]  b == env[2] IN
          /\ r.x = Diff(r.u, r.i)
          /\ Union(r.d, r.i) = a
          /\ r.whin = r.i /\ r.whout = r.d
          /\ (r.eq = TrueV) = (r.sube = TrueV /\ r.supe = TrueV)
          /\ (r.sub = TrueV) = (r.sube = TrueV /\ r.eq = FalseV)
          /\ r.cnt.n = Cardinality(r.d.s) + Cardinality(r.i.s)
          /\ Cardinality(r.wrap.s) = r.cnt.n /\ Cardinality(r.attr.s) = r.cnt.n
          /\ (r.pow # Err => Cardinality(r.pow.s) = 2 ^ r.cnt.n)
          /\ \A q \in r.el : (q.m = TrueV) = (q.w = a) /\ (q.m = FalseV) = (q.wo = a)
=============================================================================
