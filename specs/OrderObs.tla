------------------------------ MODULE OrderObs ------------------------------
(* Property C06, part 2: the AXIOMS, checked over matrices observed from the real evaluator.   *)
(* obs.ndjson holds one "row" record per value i of the universe with the observed truth of    *)
(* i < j, i <= j, i > j, i >= j, i = j for every j, and "sort" records (members and the order   *)
(* produced by orderby / the printed order / max / min).  lt is an UNINTERPRETED relation: the  *)
(* spec states only that it is a strict total order consistent with =, that <=, >, >= are its   *)
(* derived relations and that every sort is non-decreasing in it.  Every violated instance is   *)
(* printed as one JSON line for the harness.                                                  *)
EXTENDS Integers, Sequences, FiniteSets, TLC, Json
VARIABLES done
Obs == ndJsonDeserialize("obs.ndjson")
Rows == SelectSeq(Obs, LAMBDA r : r.k = "row")
Sorts == SelectSeq(Obs, LAMBDA r : r.k = "sort")
NV == Len(Rows)
Ix == 1..NV
lt(i, j) == Rows[i].lt[j]
eq(i, j) == Rows[i].eq[j]
\* distinct universe members are distinct denotations, so denotational equality is i = j
Viol ==
  {[ax |-> "irreflexive", i |-> i, j |-> i, m |-> 0] : i \in {x \in Ix : lt(x, x)}}
  \cup {[ax |-> "eq-is-identity", i |-> p[1], j |-> p[2], m |-> 0] : p \in {q \in Ix \X Ix : eq(q[1], q[2]) # (q[1] = q[2])}}
  \cup {[ax |-> "trichotomy-neither", i |-> p[1], j |-> p[2], m |-> 0] : p \in {q \in Ix \X Ix : q[1] < q[2] /\ ~lt(q[1], q[2]) /\ ~lt(q[2], q[1])}}
  \cup {[ax |-> "trichotomy-both", i |-> p[1], j |-> p[2], m |-> 0] : p \in {q \in Ix \X Ix : q[1] < q[2] /\ lt(q[1], q[2]) /\ lt(q[2], q[1])}}
  \cup {[ax |-> "le-derived", i |-> p[1], j |-> p[2], m |-> 0] : p \in {q \in Ix \X Ix : Rows[q[1]].le[q[2]] # (lt(q[1], q[2]) \/ q[1] = q[2])}}
  \cup {[ax |-> "gt-derived", i |-> p[1], j |-> p[2], m |-> 0] : p \in {q \in Ix \X Ix : Rows[q[1]].gt[q[2]] # lt(q[2], q[1])}}
  \cup {[ax |-> "ge-derived", i |-> p[1], j |-> p[2], m |-> 0] : p \in {q \in Ix \X Ix : Rows[q[1]].ge[q[2]] # (lt(q[2], q[1]) \/ q[1] = q[2])}}
TransViol ==
  {[ax |-> "transitive", i |-> t[1], j |-> t[2], m |-> t[3]] :
      t \in {q \in Ix \X Ix \X Ix : lt(q[1], q[2]) /\ lt(q[2], q[3]) /\ ~lt(q[1], q[3])}}
\* a sort result is a permutation of the members and never puts a larger value before a smaller one
SortViol ==
  {[ax |-> "sort:" \o Sorts[s].what, i |-> s, j |-> 0, m |-> 0] :
      s \in {x \in DOMAIN Sorts :
               LET r == Sorts[x].result  mem == Sorts[x].members IN
               \/ {r[k] : k \in DOMAIN r} # {mem[k] : k \in DOMAIN mem} \/ Len(r) # Len(mem)
               \/ \E a, b \in DOMAIN r : a < b /\ lt(r[b], r[a])}}
Few(S) == IF Cardinality(S) <= 40 THEN S ELSE CHOOSE T \in SUBSET S : Cardinality(T) = 40
AllViol == Viol \cup TransViol \cup SortViol
Init == done = FALSE
Report == /\ ~done /\ done' = TRUE
          /\ PrintT(ToJson([spec |-> "OrderObs", n |-> NV, sorts |-> Len(Sorts), nviol |-> Cardinality(AllViol)]))
          /\ \A v \in AllViol : PrintT(ToJson([spec |-> "OrderObsViol", v |-> v]))
Spec == Init /\ [][Report]_done
=============================================================================
