SPECIFICATION Spec
CONSTANTS
  Elems <- PoolBranchT
  MaxLit = 2
  Depth = 2
  NLits = 1
  Steps = {"with", "without"}
INVARIANTS TypeOK Laws
PROPERTIES AppendOnly
CHECK_DEADLOCK FALSE
