------------------------------- MODULE SeqLib -------------------------------
(* Property C14: the //seq functions compute the ordinary sequence operations, identically   *)
(* for strings, byte arrays and arrays.  Sequences are TLA+ sequences over a small alphabet   *)
(* (small alphabets make overlaps and repeated prefixes the common case); the harness maps    *)
(* one abstract sequence to the three representations.  Where the textbook meaning is         *)
(* ambiguous (empty delimiter in split, empty pattern in sub) the expected value is Unspec    *)
(* and only the correspondence between the three representations is required.                *)
EXTENDS Integers, Sequences, SequencesExt, FiniteSets, TLC, Json

CONSTANTS Alphabet, MaxSubject, MaxPattern, MaxSubSubject

VARIABLES case, done
vars == <<case, done>>

Seqs(n) == UNION {[1..k -> Alphabet] : k \in 0..n}
Unspec == [unspec |-> TRUE]

HasSub(p, s)  == \E i \in 0..(Len(s) - Len(p)) : SubSeq(s, i + 1, i + Len(p)) = p
FirstAt(p, s) == CHOOSE i \in 0..(Len(s) - Len(p)) :
                   /\ SubSeq(s, i + 1, i + Len(p)) = p
                   /\ \A j \in 0..(i - 1) : SubSeq(s, j + 1, j + Len(p)) # p
RECURSIVE Split(_, _), JoinSeq(_, _), Sub(_, _, _), Repeat(_, _)
\* leftmost, non-overlapping
Split(d, s) == IF ~HasSub(d, s) THEN <<s>> ELSE
               LET i == FirstAt(d, s) IN <<SubSeq(s, 1, i)>> \o Split(d, SubSeq(s, i + Len(d) + 1, Len(s)))
JoinSeq(d, ss) == IF Len(ss) = 0 THEN <<>> ELSE IF Len(ss) = 1 THEN ss[1] ELSE ss[1] \o d \o JoinSeq(d, Tail(ss))
Sub(old, new, s) == IF ~HasSub(old, s) THEN s ELSE
               LET i == FirstAt(old, s) IN SubSeq(s, 1, i) \o new \o Sub(old, new, SubSeq(s, i + Len(old) + 1, Len(s)))
Repeat(n, s) == IF n = 0 THEN <<>> ELSE s \o Repeat(n - 1, s)
TrimPrefix(p, s) == IF IsPrefix(p, s) THEN SubSeq(s, Len(p) + 1, Len(s)) ELSE s
TrimSuffix(p, s) == IF IsSuffix(p, s) THEN SubSeq(s, 1, Len(s) - Len(p)) ELSE s

PairResults(p, s) ==
  [ contains    |-> HasSub(p, s),
    has_prefix  |-> IsPrefix(p, s),
    has_suffix  |-> IsSuffix(p, s),
    trim_prefix |-> TrimPrefix(p, s),
    trim_suffix |-> TrimSuffix(p, s),
    split       |-> IF p = <<>> THEN Unspec ELSE Split(p, s),
    joinsplit   |-> IF p = <<>> THEN Unspec ELSE JoinSeq(p, Split(p, s)),     \* join(p, split(p, s))
    join2       |-> JoinSeq(p, <<s, p, s>>),                                 \* join(p, [s, p, s])
    concat      |-> p \o s \o p,                                             \* concat([p, s, p])
    repeat      |-> [n \in 0..2 |-> Repeat(n, s)] ]
TripleResults(old, new, s) ==
  [ sub |-> IF old = <<>> THEN Unspec ELSE Sub(old, new, s) ]

Init == case = [k |-> "none"] /\ done = FALSE
Pair == /\ case.k = "none"
        /\ \E p \in Seqs(MaxPattern), s \in Seqs(MaxSubject) :
              case' = [k |-> "pair", p |-> p, s |-> s, r |-> PairResults(p, s)]
        /\ UNCHANGED done
Triple == /\ case.k = "none"
          /\ \E old \in Seqs(MaxPattern), new \in Seqs(MaxPattern), s \in Seqs(MaxSubSubject) :
              case' = [k |-> "triple", old |-> old, new |-> new, s |-> s, r |-> TripleResults(old, new, s)]
          /\ UNCHANGED done
Emit == /\ case.k # "none" /\ ~done /\ done' = TRUE /\ UNCHANGED case
        /\ PrintT(ToJson([spec |-> "SeqLib", c |-> case]))
Next == Pair \/ Triple \/ Emit
Spec == Init /\ [][Next]_vars

\* textbook laws that the oracle itself must satisfy
Laws == /\ (case.k = "pair" /\ case.p # <<>>) =>
              /\ case.r.joinsplit = case.s                              \* join inverts split
              /\ case.r.contains = (Len(case.r.split) > 1)              \* contains iff split splits
              /\ \A i \in DOMAIN case.r.split : ~HasSub(case.p, case.r.split[i]) \/ i = Len(case.r.split)
        /\ (case.k = "pair") =>
              /\ (case.r.has_prefix => case.p \o case.r.trim_prefix = case.s)
              /\ (case.r.has_suffix => case.r.trim_suffix \o case.p = case.s)
              /\ (~case.r.has_prefix => case.r.trim_prefix = case.s)
              /\ (case.r.has_prefix \/ case.r.has_suffix => case.r.contains)
        /\ (case.k = "triple" /\ case.old # <<>>) =>
              /\ (case.old = case.new => case.r.sub = case.s)
              /\ (~HasSub(case.old, case.s) => case.r.sub = case.s)
              /\ Len(case.r.sub) = Len(case.s) + (Len(Split(case.old, case.s)) - 1) * (Len(case.new) - Len(case.old))
=============================================================================
