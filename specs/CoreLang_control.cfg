SPECIFICATION Spec
CONSTANTS Mode = "control"
INVARIANTS Preserved
CHECK_DEADLOCK FALSE
