SPECIFICATION Spec
CONSTANTS
  Files = {"a", "b", "c"}
  G = {"g1", "g2"}
  OwnStackCheck = TRUE
  BroadcastOnAbandon = FALSE
  AllowCycles = FALSE
INVARIANTS TypeOK SingleFlight InflightHasOwner RightOutcome
PROPERTIES Terminates
CHECK_DEADLOCK FALSE
