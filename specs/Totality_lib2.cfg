SPECIFICATION Spec
CONSTANTS Mode = "lib"
  MaxToks = 1
  LibArity = 2
  Small = FALSE
INVARIANTS Total
CHECK_DEADLOCK FALSE
