SPECIFICATION Spec
CONSTANTS MaxLines = 2
INVARIANTS Sane
CHECK_DEADLOCK FALSE
