SPECIFICATION Spec
CONSTANTS MaxLines = 1
  LinePool = "delims"
INVARIANTS StackShape NoStuck ResetOnSubmit
CHECK_DEADLOCK FALSE
