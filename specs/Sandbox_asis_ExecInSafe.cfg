SPECIFICATION Spec
CONSTANTS Mode = "routesQ"
  Steps = 1
  AsIs = {"ExecInSafe"}
INVARIANTS SafeClean
CHECK_DEADLOCK FALSE
