SPECIFICATION Spec
CONSTANTS
  Segs = {"up", "dot", "nil", "d", "e", "x", "sx", "xs", "sup", "ups"}
  MaxSegs = 3
  NFiles = 3
INVARIANTS ConfinedInv ClampInv NearestInv
CHECK_DEADLOCK FALSE
