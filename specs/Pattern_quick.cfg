SPECIFICATION Spec
CONSTANTS Deep = FALSE
INVARIANTS RebuildLaw
CHECK_DEADLOCK FALSE
