SPECIFICATION Spec
CONSTANTS
  Segs = {"up", "dot", "nil", "d", "e", "x", "sx", "xs", "sup", "ups"}
  MaxSegs = 4
  NFiles = 4
INVARIANTS ConfinedInv ClampInv NearestInv
CHECK_DEADLOCK FALSE
