SPECIFICATION Spec
CONSTANTS Mode = "srcwalk"
  MaxToks = 4
  LibArity = 1
  Small = FALSE
INVARIANTS Total
CHECK_DEADLOCK FALSE
