SPECIFICATION Spec
CONSTANTS Mode = "posQ"
  Steps = 2
  AsIs = {}
INVARIANTS Confined SafeClean UngrantedFails
CHECK_DEADLOCK FALSE
