------------------------------ MODULE EnumOrder ------------------------------
(* Property C07: the same program yields the same value and the same printed bytes whatever the   *)
(* per-process hash seeds are - that is, whatever order sets, dictionaries and tuples happen to   *)
(* be enumerated in.  Only orderby / order with tied keys are exempt.                            *)
(*                                                                                          *)
(* The state is a program form, a key profile and a value profile for the elements of one set,    *)
(* and an enumeration order `perm` of that set (every permutation is an initial state).  Result   *)
(* is what the form computes when the set is walked in that order, written the way the            *)
(* interpreter's algorithms are shaped: canonical (sorted) printing, a stable sort of the walk     *)
(* for orderby / order, ranks by counting smaller keys, and sums as a fold over the *sorted*       *)
(* values.  Addition is modelled with rounding (RAdd: sums beyond +-Big lose their low bits), so   *)
(* that the order of a fold matters exactly as it does for floats.  TLC checks OrderFree: unless   *)
(* the form is exempt (a sort by keys that tie), Result is the same for every permutation.  With   *)
(* Naive = {"sum"} the sum folds over the walk itself - the negative control TLC must reject.      *)
(* The identity permutation of every (form, profiles) is emitted; the harness renders it over a    *)
(* 12-element set (small sets are stored in insertion order and would hide the effect), runs it    *)
(* in N fresh processes - each draws its own hash seeds - and compares the printed bytes.          *)
EXTENDS Integers, Sequences, FiniteSets, SequencesExt, TLC, Json

CONSTANTS N,       \* elements of the model set (the harness scales the profiles to 12)
          Naive    \* forms computed by folding over the walk instead of a canonical order

VARIABLES form, kprof, vprof, perm, done
vars == <<form, kprof, vprof, perm, done>>

Ids == 1..N
KProfiles == {"distinct", "tied", "mod3", "pairs"}
VProfiles == {"ints", "fracs", "cancel"}
K(p, i) == CASE p = "distinct" -> i [] p = "tied" -> 1 [] p = "mod3" -> i % 3 [] OTHER -> i \div 2
\* values as integers in tenths; "cancel" has a huge pair whose sum loses the small addends
Big == 1000
V(p, i) == CASE p = "ints" -> 10 * i [] p = "fracs" -> i
             [] OTHER -> (CASE i = 1 -> 4 * Big [] i = 2 -> 1 [] i = 3 -> 0 - 4 * Big [] OTHER -> i)
HasTies(p) == \E i, j \in Ids : i # j /\ K(p, i) = K(p, j)

\* rounded addition: beyond Big the low two digits are lost (a toy mantissa)
Round(x) == IF x > Big \/ x < 0 - Big THEN (x \div 100) * 100 ELSE x
RAdd(a, b) == Round(a + b)
RSum(s) == FoldLeft(RAdd, 0, s)

Forms == {"print", "mapset", "where", "orderby_k", "orderby_total", "order_k", "first_k", "rank_k", "sum", "mean",
          "min", "max", "median", "setpat", "single", "nest_k", "join_sorted", "tupleprint", "dictprint", "interp",
          "json", "union_nested", "count", "arrow_array", "concat", "mapped_sum", "group_mean", "where_sum",
          "setpat_rest", "setpat_expr", "setpat_cond"}

\* the walk sorted stably by a key function
RECURSIVE InsertStable(_, _, _)
InsertStable(s, x, key) ==      \* key: a function from ids to integers
  IF s = <<>> THEN <<x>>
  ELSE IF key[x] < key[Head(s)] THEN <<x>> \o s ELSE <<Head(s)>> \o InsertStable(Tail(s), x, key)
StableSort(walk, key) == FoldLeft(LAMBDA acc, x : InsertStable(acc, x, key), <<>>, walk)
ById(walk) == StableSort(walk, [i \in Ids |-> i])            \* the canonical order (ids are distinct)
ByValue(walk, vp) == StableSort(ById(walk), [i \in Ids |-> V(vp, i)])
KeyOf(kp) == [i \in Ids |-> K(kp, i)]

Result(f, kp, vp, walk) ==
  CASE f \in {"orderby_k", "order_k"} -> StableSort(walk, KeyOf(kp))          \* ties keep walk order
    [] f = "first_k" -> <<Head(StableSort(walk, KeyOf(kp)))>>
    [] f = "orderby_total" -> StableSort(ById(walk), KeyOf(kp))
    [] f = "rank_k" -> [i \in Ids |-> Cardinality({j \in Ids : K(kp, j) < K(kp, i)})]
    [] f \in {"sum", "mean", "mapped_sum", "group_mean", "where_sum"} ->
         <<RSum([n \in 1..N |-> V(vp, (IF f \in Naive THEN walk ELSE ByValue(walk, vp))[n])])>>
    [] f \in {"setpat", "single"} -> <<"error">>                  \* refused rather than order-dependent
    [] f \in {"setpat_rest", "setpat_expr", "setpat_cond"} -> <<"the one element left, or no match">>
    [] OTHER -> ById(walk)                                         \* sets, tuples and dicts print in canonical order

Exempt(f, kp) == f \in {"orderby_k", "order_k", "first_k"} /\ HasTies(kp)
Identity == [i \in 1..N |-> i]

Init == /\ form \in Forms /\ kprof \in KProfiles /\ vprof \in VProfiles
        /\ perm \in {p \in [1..N -> Ids] : \A i, j \in 1..N : i # j => p[i] # p[j]}
        /\ done = FALSE
Emit == /\ ~done /\ perm = Identity /\ done' = TRUE /\ UNCHANGED <<form, kprof, vprof, perm>>
        /\ PrintT(ToJson([spec |-> "EnumOrder", form |-> form, kprof |-> kprof, vprof |-> vprof, exempt |-> Exempt(form, kprof)]))
Next == Emit
Spec == Init /\ [][Next]_vars

OrderFree == ~Exempt(form, kprof) => Result(form, kprof, vprof, perm) = Result(form, kprof, vprof, Identity)
\* the exemption is not vacuous: some walk really changes the result of a tied sort
ExemptIsReal == (Exempt(form, kprof) /\ form # "first_k" /\ perm = Identity) =>
                  \E i, j \in Ids : i < j /\ K(kprof, i) = K(kprof, j)
=============================================================================
