SPECIFICATION Spec
CONSTANTS
  AttrNames = {"a", "b", "c", "at", "it"}
  MaxAttrs = 2
  MaxRows = 2
  Depth = 3
  Fork = FALSE
INVARIANTS TypeOK
CHECK_DEADLOCK FALSE
