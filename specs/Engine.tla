------------------------------- MODULE Engine -------------------------------
(* The server engine (property C17): one loop goroutine owns the database value and the set   *)
(* of watchers; clients talk to it over unbuffered channels.  Each select case of the loop    *)
(* and each sub-step it performs while handling a request is one action, so that every        *)
(* interleaving with the clients is explored and so that recorded executions (one hook event  *)
(* per action) can be validated step by step (EngineTrace).                                  *)
(*                                                                                          *)
(* The abstract database state is the NUMBER of installed updates (the driver's update        *)
(* expression increments a counter, so delivered values identify states).                    *)
(*                                                                                          *)
(* AsIs = TRUE keeps the two deviations of the pinned commit as named actions:               *)
(*   SelfCancelFromLoop  - a failing observer's cancel() sends to the loop from the loop      *)
(*   CancelUnknownCrash  - removing an unknown watcher id dereferences nil and kills the loop *)
(* With AsIs = TRUE TLC must find a counterexample to NoWedge (negative control).            *)
EXTENDS Integers, Sequences, FiniteSets, TLC

CONSTANTS Clients,      \* client ids
          MaxOps,       \* operations issued per client
          MaxWatchers,  \* watcher ids available
          FailAt,       \* failing observers fail on the state with this number
          Pipelined,    \* FALSE: a client waits for its call to return (design model)
                        \* TRUE : permissive client bookkeeping for recorded traces (see EngineTrace)
          AsIs          \* model the defects of the pinned commit

None == [op |-> "none"]
Kinds == {"good", "failexpr", "failcb"}

VARIABLES
  db,         \* number of installed updates
  vals,       \* vals[i + 1] = the observable payload of the state after i installs (an update may leave it unchanged)
  lpc,        \* loop: "select","ack","install","notify","adding","hanging","wedged","dead","stopped"
  lreq,       \* request the loop is handling
  pending,    \* watchers still to be visited in the current notify / hangup phase
  watchers,   \* live watcher ids
  wkind,      \* watcher id -> kind (allocated ids only)
  subAt,      \* watcher id -> db when it was added by the loop
  delivered,  \* watcher id -> sequence of db numbers sent to its callback
  closed,     \* watcher id -> number of close callbacks
  closedErr,  \* watcher id -> closed with an error
  out,        \* client -> queue of requests issued and not yet received by the loop
  acked,      \* client -> number of update replies sent and not yet consumed by Return
  calls,      \* client -> queue of calls that have not returned yet
  nops,       \* client -> operations issued so far
  acks        \* sequence of <<client, ok>> in the order the loop answered updates
vars == <<db, vals, lpc, lreq, pending, watchers, wkind, subAt, delivered, closed, closedErr, out, acked, calls, nops, acks>>

WIds == 1..MaxWatchers
Alloc == DOMAIN wkind
\* failing observers fail on states whose payload is FailAt
Fails(w, n) == wkind[w] # "good" /\ vals[n + 1] = FailAt

Init ==
  /\ db = 0 /\ vals = <<0>> /\ lpc = "select" /\ lreq = None /\ pending = {} /\ watchers = {}
  /\ wkind = <<>> /\ subAt = <<>> /\ delivered = <<>> /\ closed = <<>> /\ closedErr = <<>>
  /\ out = [c \in Clients |-> <<>>] /\ acked = [c \in Clients |-> 0]
  /\ calls = [c \in Clients |-> <<>>] /\ nops = [c \in Clients |-> 0] /\ acks = <<>>

Ext(f, k, v) == [x \in DOMAIN f \cup {k} |-> IF x = k THEN v ELSE f[x]]

\* ---- clients ------------------------------------------------------------------------------
CanIssue(c) == nops[c] < MaxOps /\ (Pipelined \/ calls[c] = <<>>) /\ Len(calls[c]) < 2
Enqueue(c, r) == /\ out' = [out EXCEPT ![c] = Append(@, r)]
                 /\ calls' = [calls EXCEPT ![c] = Append(@, r)]
                 /\ nops' = [nops EXCEPT ![c] = @ + 1]
\* inc = FALSE: a valid update whose value equals the current one (it is still answered and installed)
IssueUpdate(c, ok, inc) == /\ CanIssue(c) /\ Enqueue(c, [op |-> "update", c |-> c, ok |-> ok, inc |-> inc])
                      /\ UNCHANGED <<db, vals, lpc, lreq, pending, watchers, wkind, subAt, delivered, closed, closedErr, acked, acks>>
IssueObserve(c, w, k) == /\ CanIssue(c) /\ w \in WIds \ Alloc /\ \A v \in WIds \ Alloc : w <= v
                         /\ wkind' = Ext(wkind, w, k) /\ delivered' = Ext(delivered, w, <<>>)
                         /\ closed' = Ext(closed, w, 0) /\ closedErr' = Ext(closedErr, w, FALSE)
                         /\ Enqueue(c, [op |-> "observe", c |-> c, w |-> w])
                         /\ UNCHANGED <<db, vals, lpc, lreq, pending, watchers, subAt, acked, acks>>
IssueCancel(c, w) == /\ CanIssue(c) /\ w \in Alloc
                     /\ Enqueue(c, [op |-> "cancel", c |-> c, w |-> w])
                     /\ UNCHANGED <<db, vals, lpc, lreq, pending, watchers, wkind, subAt, delivered, closed, closedErr, acked, acks>>
IssueHangup(c) == /\ CanIssue(c) /\ Enqueue(c, [op |-> "hangup", c |-> c])
                  /\ UNCHANGED <<db, vals, lpc, lreq, pending, watchers, wkind, subAt, delivered, closed, closedErr, acked, acks>>
\* a call returns: an update needs its reply; the other calls complete with the rendezvous
Received(c) == Len(out[c]) < Len(calls[c])          \* the oldest call has been taken by the loop
Return(c) == /\ calls[c] # <<>>
             /\ LET r == Head(calls[c]) IN
                  /\ (r.op = "update" => acked[c] > 0)
                  /\ (r.op # "update" /\ ~Pipelined => Received(c))
                  /\ acked' = [acked EXCEPT ![c] = IF r.op = "update" THEN @ - 1 ELSE @]
             /\ calls' = [calls EXCEPT ![c] = Tail(@)]
             /\ UNCHANGED <<db, vals, lpc, lreq, pending, watchers, wkind, subAt, delivered, closed, closedErr, out, nops, acks>>

\* ---- the loop -----------------------------------------------------------------------------
Take(c) == out' = [out EXCEPT ![c] = Tail(@)]
AtSelect(c, op) == lpc = "select" /\ out[c] # <<>> /\ Head(out[c]).op = op

RecvUpdate(c) == /\ AtSelect(c, "update") /\ Take(c)
                 /\ lreq' = Head(out[c]) /\ lpc' = "ack"
                 /\ UNCHANGED <<db, vals, pending, watchers, wkind, subAt, delivered, closed, closedErr, acked, calls, nops, acks>>
\* the reply is sent before the new state is installed
AckSend == /\ lpc = "ack"
           /\ acked' = [acked EXCEPT ![lreq.c] = @ + 1]
           /\ acks' = Append(acks, <<lreq.c, lreq.ok>>)
           /\ lpc' = IF lreq.ok THEN "install" ELSE "select"
           /\ UNCHANGED <<db, vals, lreq, pending, watchers, wkind, subAt, delivered, closed, closedErr, out, calls, nops>>
Install == /\ lpc = "install"
           /\ db' = db + 1 /\ pending' = watchers
           /\ vals' = Append(vals, vals[Len(vals)] + (IF lreq.inc THEN 1 ELSE 0))
           /\ lpc' = IF watchers = {} THEN "select" ELSE "notify"
           /\ UNCHANGED <<lreq, watchers, wkind, subAt, delivered, closed, closedErr, out, acked, calls, nops, acks>>

\* one watcher is visited: it gets the value, or - if its expression or callback fails on this
\* state - it is closed and forgotten by the loop itself
Visit(w, next) ==
  IF Fails(w, db)
  THEN /\ ~AsIs
       /\ watchers' = watchers \ {w}
       /\ closed' = [closed EXCEPT ![w] = @ + 1]
       /\ closedErr' = [closedErr EXCEPT ![w] = (wkind[w] = "failexpr")]
       /\ delivered' = IF wkind[w] = "failcb" THEN [delivered EXCEPT ![w] = Append(@, db)] ELSE delivered
       /\ lpc' = next
  ELSE /\ delivered' = [delivered EXCEPT ![w] = Append(@, db)]
       /\ UNCHANGED <<watchers, closed, closedErr>>
       /\ lpc' = next
SelfCancelFromLoop(w) ==        \* as the pinned commit has it: update() calls cancel(), which sends to the loop
  /\ AsIs /\ Fails(w, db) /\ lpc' = "wedged"
  /\ UNCHANGED <<watchers, closed, closedErr, delivered>>
Notify(w) == /\ lpc = "notify" /\ w \in pending
             /\ pending' = pending \ {w}
             /\ (Visit(w, IF pending \ {w} = {} THEN "select" ELSE "notify") \/ SelfCancelFromLoop(w))
             /\ UNCHANGED <<db, vals, lreq, wkind, subAt, out, acked, calls, nops, acks>>

RecvObserve(c) == /\ AtSelect(c, "observe") /\ Take(c)
                  /\ LET w == Head(out[c]).w IN
                       /\ watchers' = watchers \cup {w} /\ subAt' = Ext(subAt, w, db)
                  /\ lreq' = Head(out[c]) /\ lpc' = "adding"
                  /\ UNCHANGED <<db, vals, pending, wkind, delivered, closed, closedErr, acked, calls, nops, acks>>
\* a new watcher is immediately sent the current state
AddDeliver == /\ lpc = "adding"
              /\ (Visit(lreq.w, "select") \/ SelfCancelFromLoop(lreq.w))
              /\ UNCHANGED <<db, vals, lreq, pending, wkind, subAt, out, acked, calls, nops, acks>>

RecvCancel(c) == /\ AtSelect(c, "cancel") /\ Take(c)
                 /\ LET w == Head(out[c]).w IN
                      IF w \in watchers
                      THEN /\ watchers' = watchers \ {w} /\ closed' = [closed EXCEPT ![w] = @ + 1]
                           /\ lpc' = "select"
                      ELSE /\ UNCHANGED <<watchers, closed>>
                           /\ lpc' = IF AsIs THEN "dead" ELSE "select"       \* CancelUnknownCrash
                 /\ lreq' = Head(out[c])
                 /\ UNCHANGED <<db, vals, pending, wkind, subAt, delivered, closedErr, acked, calls, nops, acks>>

RecvHangup(c) == /\ AtSelect(c, "hangup") /\ Take(c)
                 /\ pending' = watchers /\ lreq' = Head(out[c])
                 /\ lpc' = IF watchers = {} THEN "select" ELSE "hanging"
                 /\ UNCHANGED <<db, vals, watchers, wkind, subAt, delivered, closed, closedErr, acked, calls, nops, acks>>
CloseOne(w) == /\ lpc = "hanging" /\ w \in pending
               /\ pending' = pending \ {w} /\ watchers' = watchers \ {w}
               /\ closed' = [closed EXCEPT ![w] = @ + 1]
               /\ lpc' = IF pending \ {w} = {} THEN "select" ELSE "hanging"
               /\ UNCHANGED <<db, vals, lreq, wkind, subAt, delivered, closedErr, out, acked, calls, nops, acks>>

LoopStep == \/ \E c \in Clients : RecvUpdate(c) \/ RecvObserve(c) \/ RecvCancel(c) \/ RecvHangup(c)
            \/ AckSend \/ Install \/ AddDeliver
            \/ \E w \in WIds : Notify(w) \/ CloseOne(w)
ClientStep == \E c \in Clients :
                 \/ \E ok \in BOOLEAN, inc \in BOOLEAN : (ok \/ inc) /\ IssueUpdate(c, ok, inc)
                 \/ \E w \in WIds, k \in Kinds : IssueObserve(c, w, k)
                 \/ \E w \in WIds : IssueCancel(c, w)
                 \/ IssueHangup(c)
                 \/ Return(c)
Next == LoopStep \/ ClientStep
Spec == Init /\ [][Next]_vars /\ WF_vars(LoopStep) /\ \A c \in Clients : WF_vars(Return(c))

\* ---- properties ----------------------------------------------------------------------------
TypeOK == /\ db \in Nat /\ Len(vals) = db + 1 /\ watchers \subseteq Alloc /\ pending \subseteq Alloc
          /\ lpc \in {"select", "ack", "install", "notify", "adding", "hanging", "wedged", "dead", "stopped"}
\* the engine never wedges or dies
NoWedge == lpc \notin {"wedged", "dead"}
\* every state installed after a watcher was added, and while it is live, reaches it in order, once
Range(a, b) == [i \in 1..(b - a + 1) |-> a + i - 1]
DeliveredExactly ==
  \A w \in DOMAIN subAt :
     LET d == delivered[w] IN
       /\ \A i \in DOMAIN d : d[i] = subAt[w] + i - 1                       \* consecutive, in order
       /\ (w \in watchers /\ lpc = "select") => d = Range(subAt[w], db)   \* nothing missed
       /\ (w \in watchers /\ w \notin pending /\ lpc = "notify") => d = Range(subAt[w], db)
CloseAtMostOnce == \A w \in DOMAIN closed : closed[w] <= 1
ClosedMeansGone == \A w \in DOMAIN closed : closed[w] > 0 => w \notin watchers
\* accepted updates take effect one at a time in the order they were acknowledged
InAckOrder == LET okAcks == SelectSeq(acks, LAMBDA a : a[2]) IN
                 Len(okAcks) = db + (IF lpc = "install" THEN 1 ELSE 0)
\* every request is answered: a call that has been issued eventually returns
EveryCallReturns == \A c \in Clients : (calls[c] # <<>>) ~> (calls[c] = <<>>)
=============================================================================
