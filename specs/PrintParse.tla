----------------------------- MODULE PrintParse -----------------------------
(* Property C12: printing a data value and reading the text back is the identity on         *)
(* denotations.  The spec deliberately models no escape syntax; it supplies the quantified   *)
(* space of values (strings over an escape-hostile alphabet, unusual attribute names,        *)
(* offset and sparse sequences, multi-valued dictionaries, one level of nesting) and the     *)
(* statement Reprint(v) = v.                                                                 *)
EXTENDS ArraiValue, SequencesExt

CONSTANTS Alphabet,   \* code points
          MaxLen,     \* maximal string length
          AttrIds     \* attribute-name ids (resolved by the harness table)
Offs == {0, 2, -1}    \* offsets

VARIABLES v, printed
vars == <<v, printed>>

Seqs(A, n) == UNION {[1..k -> A] : k \in 1..n}
StrVals  == {Str(q, off) : q \in Seqs(Alphabet, MaxLen), off \in Offs}
\* one interior hole
StrHoles == {S(Str(q, 0).s \ {Chr(1, q[2])}) : q \in Seqs(Alphabet, 3) \ Seqs(Alphabet, 2)}
Items    == {N(1), Hole, Str(<<34>>, 0), S({})}
ArrVals  == {Arr(q, off) : q \in Seqs(Items, 3), off \in Offs} \ {S({})}
ByteVals == {Bytes(q, off) : q \in Seqs({0, 34, 92, 255}, 2), off \in Offs}
DKeys    == {N(1), Str(<<39>>, 0), S({}), Mk1("a", N(1))}
DVals    == {N(1), N(2)}
DictVals == {S(x) : x \in {y \in SUBSET {Ent(k, w) : k \in DKeys, w \in DVals} : Cardinality(y) \in 1..2}}
TupVals  == {Mk1(a, N(1)) : a \in AttrIds} \cup
            {Mk2(a, N(1), b, Str(<<c>>, 0)) : a \in AttrIds, b \in {"it", "zz"}, c \in {34, 39}}
NumVals  == {N(0), N(-1), H(0), H(-3), N(1000000)}
Base0 == StrHoles \cup ArrVals \cup ByteVals \cup DictVals \cup TupVals \cup NumVals \cup {S({}), TrueV, EmptyT}
ShortStr == {Str(q, off) : q \in Seqs(Alphabet, 1), off \in Offs}
Wrap1(x) == {S({x, N(1)}), S({x}), Mk1("a", x), Arr(<<x>>, 0), Arr(<<N(1), x>>, 2), Ent(x, N(1)), S({Ent(x, N(1))}),
            S({Ent(N(1), x)}), Mk1("neg", x)}
Universe == StrVals \cup Base0 \cup UNION {Wrap1(x) : x \in Base0 \cup ShortStr}

Init == v \in Universe /\ printed = FALSE
\* Reprint: print, parse, evaluate -- must give back the same denotation
Reprint == /\ ~printed /\ printed' = TRUE /\ v' = v
           /\ PrintT(ToJson([spec |-> "PrintParse", v |-> v]))
Next == Reprint
Spec == Init /\ [][Next]_vars
Identity == [][v' = v]_vars
=============================================================================
