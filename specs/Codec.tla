-------------------------------- MODULE Codec --------------------------------
(* Property C13: data codecs round-trip.  The abstract side of each codec:                    *)
(*  - JSON / YAML documents and the documented strict tagging ToArrai (strings (s: ..), arrays  *)
(*    (a: [..]), booleans (b: ..), null (), numbers as they are, objects as dicts), with its     *)
(*    partial inverse FromArrai; TLC checks that ToArrai is injective and FromArrai inverts it,  *)
(*    i.e. that the DESIGN can round-trip;                                                    *)
(*  - CSV: a matrix of strings is its own abstract value;                                      *)
(*  - bits: a non-negative integer is its set of bit positions;                                *)
(*  - wire: any value (the identity).                                                         *)
(* Character-level fidelity is outside TLA+: the harness serialises documents with Go's          *)
(* encoding/json and yaml.v3 and compares contents.                                           *)
EXTENDS ArraiValue, SequencesExt
CONSTANTS Deep
VARIABLES case, done
vars == <<case, done>>

DNull == [k |-> "null"]
DBool(b) == [k |-> "bool", b |-> b]
DNum(v) == [k |-> "num", v |-> v]               \* v is N(i) or H(i)
DStr(q) == [k |-> "str", q |-> q]               \* q: sequence of code points
DArr(xs) == [k |-> "arr", xs |-> xs]
DObj(kv) == [k |-> "obj", kv |-> kv]            \* kv: set of [key |-> sequence of code points, val |-> document] with distinct keys

RECURSIVE ToArrai(_)
ToArrai(d) ==
  CASE d.k = "null" -> EmptyT
    [] d.k = "bool" -> Mk1("b", Bool(d.b))
    [] d.k = "num"  -> d.v
    [] d.k = "str"  -> Mk1("s", Str(d.q, 0))
    [] d.k = "arr"  -> Mk1("a", Arr([i \in DOMAIN d.xs |-> ToArrai(d.xs[i])], 0))
    [] d.k = "obj"  -> S({Ent(Str(e.key, 0), ToArrai(e.val)) : e \in d.kv})

\* numbers beyond TLC's 32-bit integers are symbolic: [big |-> "<decimal text>"], resolved by the harness
BigN(txt) == [big |-> txt]
Leaves == {DNull, DBool(TRUE), DBool(FALSE), DNum(N(0)), DNum(N(1)), DNum(N(-1)), DNum(H(1)), DNum(N(1000000)),
           DNum(BigN("9007199254740991")), DNum(BigN("-9007199254740991")), DNum(BigN("10000000000000000000")), DNum(BigN("1e300")),
           DStr(<<>>), DStr(<<97>>), DStr(<<0, 233>>), DStr(<<34, 92, 10>>)}
Keys == {<<97>>, <<98>>, <<>>, <<233, 32>>}
Seqs(A, n) == UNION {[1..k -> A] : k \in 0..n}
ObjsOver(A) == {DObj({[key |-> kk, val |-> f[kk]] : kk \in ks}) : ks \in {{}, {<<97>>}, {<<97>>, <<98>>}, {<<>>, <<233, 32>>}}, f \in [Keys -> A]}
D1 == Leaves \cup {DArr(q) : q \in Seqs(Leaves, 2)} \cup {DObj({})} \cup {DObj({[key |-> <<97>>, val |-> x]}) : x \in Leaves}
         \cup {DObj({[key |-> <<97>>, val |-> x], [key |-> <<>>, val |-> y]}) : x \in {DNull, DStr(<<>>), DNum(N(1))}, y \in {DBool(FALSE), DArr(<<>>)}}
D2 == D1 \cup {DArr(<<x>>) : x \in D1} \cup {DArr(<<x, y>>) : x \in D1, y \in {DNull, DArr(<<>>), DObj({})}}
         \cup {DObj({[key |-> <<97>>, val |-> x]}) : x \in D1}
         \cup {DObj({[key |-> <<97>>, val |-> x], [key |-> <<233, 32>>, val |-> y]}) : x \in D1, y \in {DStr(<<>>), DArr(<<>>), DObj({})}}
Docs == IF Deep THEN D2 ELSE D1

\* values no JSON/YAML document maps to: encoding them must be an error, not a silently different document
\* (untagged strings and arrays are accepted leniently by the strict encoders and keep their content: not listed)
NotDocs == {S({N(1), N(2)}), Mk1("x", N(1)), Mk2("s", Str(<<97>>, 0), "a", N(1)), Mk1("s", N(1)), Mk1("b", N(1)),
            TrueV, S({Ent(N(1), N(2))}), S({Mk1("a", N(1))}), Mk1("a", S({N(1)})), Mk1("a", N(1)), Mk1("b", S({N(1)}))}

\* CSV
Cells == {<<>>, <<97>>, <<44>>, <<34>>, <<10>>, <<32, 97>>, <<97, 34, 98>>}
\* a row that is one empty cell is a blank line in CSV, which readers skip: not representable, left out
Matrices == {m \in Seqs(Seqs(Cells, 2) \ {<<>>, << <<>> >>}, 2) : m # <<>> /\ \A i, j \in DOMAIN m : Len(m[i]) = Len(m[j])}

\* bits: sets of bit positions
Positions == {0, 1, 2, 7, 30, 31, 32, 51, 52}
BitSets == {s \in SUBSET Positions : Cardinality(s) <= 3}

\* wire values
WirePool == {N(1), H(0), EmptyT, Mk1("a", N(1)), S({}), TrueV, S({N(1)}), S({N(1), N(2)}), Str(<<97>>, 0), Str(<<97>>, 2),
             Arr(<<N(1)>>, 0), Arr(<<N(1), Hole, N(2)>>, 0), Arr(<<N(1)>>, 1), Bytes(<<1, 2>>, 0), Dict([kk \in {N(1)} |-> N(2)]),
             S({Mk1("a", N(1))}), S({N(1), Mk1("a", N(1))}), S({S({N(1)})}), Mk1("a", S({N(1), N(2)})), Arr(<<S({N(1)})>>, 0),
             S({Itm(0, N(1)), N(5)}), Mk1("a", Arr(<<N(1)>>, 0))}

Init == case = [k |-> "none"] /\ done = FALSE
Pick == /\ case.k = "none" /\ UNCHANGED done
        /\ \/ \E d \in Docs : case' = [k |-> "doc", d |-> d, v |-> ToArrai(d)]
           \/ \E v \in NotDocs : case' = [k |-> "notdoc", v |-> v]
           \/ \E m \in Matrices : case' = [k |-> "csv", m |-> m]
           \/ \E s \in BitSets : case' = [k |-> "bits", s |-> s]
           \/ \E v \in WirePool : case' = [k |-> "wire", v |-> v]
Emit == /\ case.k # "none" /\ ~done /\ done' = TRUE /\ UNCHANGED case
        /\ PrintT(ToJson([spec |-> "Codec", c |-> case]))
Next == Pick \/ Emit
Spec == Init /\ [][Next]_vars

\* the design can round-trip: the tagging is injective on documents, and no non-document collides with one
Injective == \A d1, d2 \in D1 : ToArrai(d1) = ToArrai(d2) => d1 = d2
NoCollision == \A v \in NotDocs : \A d \in D1 : ToArrai(d) # v
ASSUME Injective /\ NoCollision
=============================================================================
