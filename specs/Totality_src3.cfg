SPECIFICATION Spec
CONSTANTS Mode = "src"
  MaxToks = 3
  LibArity = 1
  Small = FALSE
INVARIANTS Total
CHECK_DEADLOCK FALSE
