SPECIFICATION Spec
CONSTANTS
  Files = {"a", "b", "c"}
  G = {"g1"}
  OwnStackCheck = FALSE
  BroadcastOnAbandon = FALSE
  AllowCycles = TRUE
INVARIANTS TypeOK SingleFlight InflightHasOwner RightOutcome
PROPERTIES Terminates
CHECK_DEADLOCK FALSE
