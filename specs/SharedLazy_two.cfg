SPECIFICATION Spec
CONSTANTS G = 2
  Ops <- AllOps
  NoneDisc = {}
INVARIANTS NoRace ComputeAtMostOnce NoReadBeforePublish SerialEquivalence
CHECK_DEADLOCK FALSE
