SPECIFICATION Spec
CONSTANTS Mode = "routesT"
  Steps = 2
  AsIs = {}
INVARIANTS Confined SafeClean UngrantedFails
CHECK_DEADLOCK FALSE
