----------------------------- MODULE ValueOrder -----------------------------
(* Property C06, part 1: the universe of values over which the order is observed.  The        *)
(* property does not say WHICH strict total order `<` is, so the spec does not either: it      *)
(* only fixes a universe U drawn across every kind and representation (numbers, tuples incl.  *)
(* @neg wrappers and sugar tuples, every set form, nested) and, in OrderObs, the axioms.       *)
EXTENDS ArraiValue, SequencesExt
CONSTANTS Big, Gen
VARIABLES done
Nums  == {N(-1), N(0), N(1), H(0)}
Tups  == {EmptyT, Mk1("a", N(1)), Mk1("a", N(2)), Mk1("b", N(1)), Mk2("a", N(1), "b", N(1)),
          Mk1("neg", Str(<<97>>, 0)), Mk1("neg", Str(<<98>>, 0)), Mk1("neg", S({N(1)})),
          Chr(0, 97), Chr(1, 97), Itm(0, N(1)), Itm(0, N(2)), Ent(N(1), N(2)), Byt(0, 1),
          Mk1("a", S({})), Mk1("a", TrueV), Mk1("a", Str(<<97>>, 0))}
Sets  == {S({}), TrueV, S({N(1)}), S({N(2)}), S({N(1), N(2)}),
          Str(<<97>>, 0), Str(<<98>>, 0), Str(<<97, 98>>, 0), Str(<<97>>, 1), S({Chr(0, 97), Chr(2, 98)}),
          Arr(<<N(1)>>, 0), Arr(<<N(2)>>, 0), Arr(<<N(1), N(2)>>, 0), Arr(<<N(1)>>, 1), Arr(<<N(1), Hole, N(2)>>, 0),
          Bytes(<<1>>, 0), Bytes(<<2>>, 0), Bytes(<<1>>, 1),
          Dict([k \in {N(1)} |-> N(2)]), Dict([k \in {N(1)} |-> N(3)]), Dict([k \in {N(2)} |-> N(2)]), S({Ent(N(1), N(2)), Ent(N(1), N(3))}),
          S({Mk1("a", N(1))}), S({Mk1("a", N(2))}), S({Mk1("b", N(1))}), S({Mk2("a", N(1), "b", N(1))}), S({Mk2("a", N(1), "b", N(2))}),
          S({Mk1("a", N(1)), Mk1("a", N(2))}),
          S({N(1), Mk1("a", N(1))}), S({N(1), Chr(0, 97)}), S({Chr(0, 97), Itm(0, N(1))}),
          S({S({})}), S({S({N(1)})}), S({Str(<<97>>, 0)}), S({Arr(<<N(1)>>, 0)}), S({EmptyT, N(1)}) }
More  == {N(2), H(1), Mk1("a", N(3)), Mk2("a", N(2), "b", N(1)), Mk1("neg", Mk1("a", N(1))), Chr(0, 98), Itm(1, N(1)), Ent(N(2), N(2)),
          Str(<<98, 97>>, 0), Str(<<97, 98>>, 1), Arr(<<N(2), N(1)>>, 0), Arr(<<S({})>>, 0), Arr(<<Str(<<97>>, 0)>>, 0), Bytes(<<1, 2>>, 0),
          Dict([k \in {Str(<<97>>, 0)} |-> N(1)]), S({Ent(N(1), N(2)), Ent(N(2), N(3))}), S({Mk1("c", N(1))}),
          S({N(1), N(2), Mk1("a", N(1))}), S({S({N(1)}), S({N(2)})}), S({TrueV}), S({N(0)}), S({H(0)}),
          Mk1("a", Arr(<<N(1)>>, 0)), Mk1("a", S({N(1)})), S({Mk1("a", S({N(1)}))}), S({Mk1("a", S({N(2)}))}) }
\* relations of two and three rows over one heading: pairs of them differ in several rows, in opposite
\* directions (row-by-row comparison must stop at the FIRST differing row)
Rows2  == {Mk2("a", N(i), "b", N(j)) : i, j \in 1..2}
RelFam == {S(x) : x \in {y \in SUBSET Rows2 : Cardinality(y) \in 2..3}}
\* generated part: every set of at most two members over a mixed pool (union sets, nested sets, ...)
GenPool == {N(1), N(2), EmptyT, Mk1("a", N(1)), Mk1("b", N(1)), Chr(0, 97), Chr(1, 98), Itm(0, N(1)), Ent(N(1), N(2)), Byt(0, 1),
            S({}), TrueV, S({N(1)}), Str(<<97>>, 0), Arr(<<N(1)>>, 0)}
Generated == {S(x) : x \in {y \in SUBSET GenPool : Cardinality(y) \in 1..2}}
U == Nums \cup Tups \cup Sets \cup RelFam \cup (IF Big THEN More ELSE {}) \cup (IF Gen THEN Generated ELSE {})
Init == done = FALSE
Emit == ~done /\ done' = TRUE /\ PrintT(ToJson([spec |-> "ValueOrder", u |-> U]))
Spec == Init /\ [][Emit]_done
=============================================================================
