SPECIFICATION Spec
CONSTANTS Mode = "lib"
  MaxToks = 1
  LibArity = 3
  Small = TRUE
INVARIANTS Total
CHECK_DEADLOCK FALSE
