SPECIFICATION Spec
CONSTANTS MaxEdges = 2
  Wide = FALSE
  AsIs = {}
INVARIANTS Commutes Complete Inside
CHECK_DEADLOCK FALSE
