SPECIFICATION Spec
CONSTANTS
  Files = {"a", "b", "c"}
  G = {"g1", "g2"}
  OwnStackCheck = TRUE
  BroadcastOnAbandon = TRUE
  AllowCycles = TRUE
INVARIANTS TypeOK SingleFlight InflightHasOwner RightOutcome
PROPERTIES Terminates
CHECK_DEADLOCK FALSE
