SPECIFICATION Spec
CONSTANTS
  AttrNames = {"a", "b", "c", "at"}
  MaxAttrs = 3
  MaxRows = 2
  Depth = 0
  Fork = FALSE
INVARIANTS TypeOK Laws
CHECK_DEADLOCK FALSE
