SPECIFICATION Spec
CONSTANTS
  Alphabet = {1, 2}
  MaxSubject = 5
  MaxPattern = 3
  MaxSubSubject = 4
INVARIANTS Laws
CHECK_DEADLOCK FALSE
