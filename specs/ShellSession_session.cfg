SPECIFICATION Spec
CONSTANTS MaxLines = 4
  LinePool = "session"
INVARIANTS StackShape NoStuck ResetOnSubmit
CHECK_DEADLOCK FALSE
