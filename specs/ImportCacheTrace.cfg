SPECIFICATION TraceSpec
CONSTANTS
  Files = {"a", "b", "c"}
  G = {"g1", "g2", "g3"}
  OwnStackCheck = TRUE
  BroadcastOnAbandon = TRUE
  AllowCycles = TRUE
INVARIANTS TraceInv NotAllConsumed
CHECK_DEADLOCK FALSE
