------------------------------ MODULE Totality ------------------------------
(* Property C10: compiling and evaluating any source text, and applying any operator or safe     *)
(* library function to any operands, ends in a value or an ordinary error - never a crash, never  *)
(* a hang.                                                                                    *)
(*                                                                                          *)
(* The specification is deliberately thin: an evaluation is one step from "pending" to an        *)
(* outcome in {"value", "error"}, and TLC's contribution is the systematic enumeration of the     *)
(* space the property quantifies over:                                                         *)
(*   bin  every binary operator of the grammar applied to every ordered pair of operand kinds     *)
(*   un   every unary / postfix operator, call, slice and attribute access on every kind          *)
(*   lib  every tuple of operand kinds of length 1..3, to which the harness applies every          *)
(*        callable member of the real safe library (curried)                                    *)
(*   src  every string of up to MaxToks tokens over an alphabet of arr.ai delimiters, operators,   *)
(*        keywords and fragments (the harness joins them with and without spaces)               *)
(* The operand kinds cross every value representation (numbers, the special tuples, strings and   *)
(* byte arrays with offsets, sparse arrays, dicts incl. multi-valued, relations, generic and      *)
(* mixed sets, {}, true, closures, native functions).                                          *)
EXTENDS Naturals, Sequences, FiniteSets, TLC, Json

CONSTANTS Mode,      \* "bin" | "un" | "lib" | "src" | "srcwalk"
          MaxToks,   \* for src
          LibArity,  \* for lib: maximal number of operands
          Small      \* TRUE: the short kind list

VARIABLES case, outcome, done
vars == <<case, outcome, done>>

KindsAll == {"num", "frac", "neg", "big", "str", "offstr", "bytes", "offbytes", "arr", "sparse", "offarr",
             "dict", "mdict", "tup", "etup", "ctup", "itup", "rel", "set", "mixset", "empty", "true",
             "fn", "nat", "nested", "setarr", "badctup", "oddname"}
KindsSmall == {"num", "frac", "str", "bytes", "arr", "sparse", "dict", "tup", "ctup", "rel", "set", "empty", "fn"}
Kinds == IF Small THEN KindsSmall ELSE KindsAll

BinOps == {"+", "-", "*", "/", "%", "-%", "^", "//", "\\", "|", "&", "&~", "~~", "++", "+>", "with", "without",
           "&&", "||", "=", "!=", "<", "<=", ">", ">=", "<:", "!<:", "(<)", "(<=)", "(>)", "(>=)", "(<>)", "(<>=)",
           "<&>", "-&-", "<->", "---", "-&>", "<&-", "-->", "<--", ">>>", "where", "=>", ">>", ":>", "orderby",
           "order", "rank", "sum", "max", "mean", "median", "min", "filter", "->", "call", "if", "?:"}
UnOps == {"-", "+", "!", "*", "^", "count", "single", "=>", ">>", ":>", "nest", "nestinv", "unnest", "dot", "dotstr",
          "call0", "callk", "slice", "slice3", "slicefrom", "tupleof", "setof", "arrayof", "dictkey", "dictval",
          "interp", "interpfmt", "bytesof", "let", "letpat", "cond", "condpat", "fnof", "rel1", "relwith"}
Toks == {"1", "a", "\"s\"", "(", ")", "[", "]", "{", "}", ",", ":", ";", ".", "...", "\\", "//", "|", "&", "+", "-",
         "*", "/", "%", "<", ">", "=", "!", "?", "@", "$\"", "${", "\"", "<<", ">>", "let", "cond", "_", "->", "=>",
         "{|", "|}", "{:", ":}", "^", "~", "'", "rec", "nest", "where", "//{./f}", "//{./bad}", "%a", "0x", "\"\\101\"", "\"\\777\"", "%\\101"}
Seqs(A, n) == UNION {[1..k -> A] : k \in 1..n}

Cases == CASE Mode = "bin" -> {[k |-> "bin", op |-> o, a |-> x, b |-> y] : o \in BinOps, x \in Kinds, y \in Kinds}
           [] Mode = "un"  -> {[k |-> "un", op |-> o, a |-> x] : o \in UnOps, x \in Kinds}
           [] Mode = "lib" -> {[k |-> "lib", args |-> s] : s \in Seqs(Kinds, LibArity)}
           [] Mode = "src" -> {[k |-> "src", toks |-> s] : s \in Seqs(Toks, MaxToks)}
           [] OTHER        -> {}          \* "srcwalk": the token string is grown step by step (Grow)

Init == /\ outcome = "pending" /\ done = FALSE
        /\ IF Mode = "srcwalk" THEN case = [k |-> "src", toks |-> <<>>] ELSE case \in Cases
\* sampling long token strings: the simulator appends one token per step (the set of all strings of
\* MaxToks tokens is too large to build)
Grow == /\ Mode = "srcwalk" /\ outcome = "pending" /\ ~done /\ Len(case.toks) < MaxToks
        /\ \E t \in Toks : case' = [case EXCEPT !.toks = Append(@, t)]
        /\ UNCHANGED <<outcome, done>>
\* the only behaviours the property allows
Evaluate == Mode # "srcwalk" /\ outcome = "pending" /\ outcome' \in {"value", "error"} /\ UNCHANGED <<case, done>>
Emit == /\ outcome = "pending" /\ ~done /\ done' = TRUE /\ UNCHANGED <<case, outcome>>
        /\ (Mode = "srcwalk" => Len(case.toks) = MaxToks)
        /\ PrintT(ToJson([spec |-> "Totality", c |-> case]))
Next == Evaluate \/ Emit \/ Grow
Spec == Init /\ [][Next]_vars
Total == outcome \in {"pending", "value", "error"}
=============================================================================
