SPECIFICATION Spec
CONSTANTS
  Alphabet = {0, 9, 10, 34, 39, 92, 48, 65, 97, 127, 233, 8245}
  MaxLen = 2
  AttrIds = {"a", "x1", "x2", "x3", "x4", "x5", "x6", "x7", "x8", "x9", "at", "ch"}
PROPERTIES Identity
CHECK_DEADLOCK FALSE
