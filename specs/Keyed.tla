------------------------------- MODULE Keyed -------------------------------
(* Keyed collections (property C05; histories also feed C03).  A collection is ANY set of    *)
(* 2-attribute tuples one of whose attributes is @ -- strings, byte arrays, arrays, dicts   *)
(* and generic relations {|@,x| ...} are all the same thing here.  Call, the ?: fallback,     *)
(* >> / >>>, ++ and n\ are defined on the denoted set of pairs only.                         *)
EXTENDS ArraiValue, SequencesExt

CONSTANTS Kinds,     \* which element pools literals are drawn from
          MaxLit, Depth,
          Steps,     \* which derived step kinds are enabled in chains
          SmallIdx   \* TRUE: indices {0, 1} only (dense zero-based sequences, for branching histories)

VARIABLES prog, env, done
vars == <<prog, env, done>>

Idx  == IF SmallIdx THEN {0, 1} ELSE {-1, 0, 1, 2, 4}
Vals == {N(1), N(2)}
PoolOf(kind) ==
  CASE kind = "str"   -> {Chr(i, c) : i \in Idx, c \in {97, 98}}
    [] kind = "arr"   -> {Itm(i, v) : i \in Idx, v \in Vals \cup {S({})}}
    [] kind = "bytes" -> {Byt(i, b) : i \in {0, 1, 2}, b \in {1, 2}}
    [] kind = "dict"  -> {Ent(k, v) : k \in {N(0), N(1), S({}), Str(<<97>>, 0)}, v \in Vals}
    [] kind = "gen"   -> {Mk2("at", N(i), "x", v) : i \in {0, 1, 2}, v \in Vals}
    [] kind = "gen0"  -> {Mk2("at", N(i), "x0", v) : i \in {1, 2}, v \in {N(5), N(6)}}   \* value attribute "0" sorts before @
Lits == UNION {{S(x) : x \in {y \in SUBSET PoolOf(k) : Cardinality(y) <= MaxLit}} : k \in Kinds}

KindsOf(c) == {ValAttr(t) : t \in c.s}          \* ++ can mix kinds in one collection
\* n\seq is defined for a sequence of one kind (string, byte array or array); what it does to a
\* collection that ++ has mixed from two kinds is left open
IsSeq(c)  == /\ \A t \in c.s : ValAttr(t) \in {"ch", "it", "by"} /\ IsInt(At(t))
             /\ Cardinality(KindsOf(c)) <= 1
AllNum(c) == \A t \in c.s : IsInt(Val(t))
AllIntKeys(c) == \A t \in c.s : IsInt(At(t))

Keys == {N(-1), N(0), N(1), N(2), N(3), N(4), H(0), S({}), EmptyT, Str(<<97>>, 0)}

\* element transformers (the spec defines what each means) ------------------------------------
Fns == {"id", "inc", "const", "wrap", "fail2"}
FnOK(f, c) == CASE f = "inc"  -> AllNum(c)
                [] f = "wrap" -> KindsOf(c) \cap {"ch", "by"} = {}  \* must produce valid chars/bytes
                [] f = "fail2" -> AllNum(c)
                [] OTHER -> TRUE
ApplyFn(f, v) == CASE f = "id" -> v [] f = "inc" -> N(v.n + 1) [] f = "const" -> N(1)
                   [] f = "wrap" -> S({v}) [] f = "fail2" -> v
Fails(f, c)   == f = "fail2" /\ \E t \in c.s : Val(t) = N(2)
SeqMapR(c, f) == IF Fails(f, c) THEN Err ELSE SeqMap(c, LAMBDA v : ApplyFn(f, v))
Fns2 == {"key", "val", "sum"}
Fn2OK(f, c) == f = "sum" => (AllNum(c) /\ AllIntKeys(c))
KeyOK(f, c) == f = "key" => (KindsOf(c) \cap {"ch", "by"} = {} \/ \A t \in c.s : IsInt(At(t)) /\ At(t).n >= 0)
ApplyFn2(f, k, v) == CASE f = "key" -> k [] f = "val" -> v [] f = "sum" -> N(k.n + v.n)
SeqMap2R(c, f) == SeqMap2(c, LAMBDA k, v : ApplyFn2(f, k, v))

Shifts == {-2, 1, 3}

\* every operation on one collection c (b supplies the right operand of ++) -------------------
OneResults(c, b) ==
  [ calls  |-> {[k |-> k, r |-> Call(c, k), o |-> CallOr(c, k, N(99))] : k \in Keys},
    maps   |-> {[f |-> f, r |-> SeqMapR(c, f)] : f \in {g \in Fns : FnOK(g, c)}},
    maps2  |-> {[f |-> f, r |-> SeqMap2R(c, f)] : f \in {g \in Fns2 : Fn2OK(g, c) /\ KeyOK(g, c)}},
    cat    |-> IF AllIntKeys(b) THEN Concat(c, b) ELSE Err,   \* only the right operand is shifted
    shifts |-> IF IsSeq(c) THEN {[n |-> n, r |-> Shift(c, n)] : n \in Shifts} ELSE {} ]

Init == prog = <<>> /\ env = <<>> /\ done = FALSE
Lit == /\ Len(prog) < 2
       /\ \E v \in Lits : prog' = Append(prog, [k |-> "lit"]) /\ env' = Append(env, v)
       /\ UNCHANGED done
AllOps == /\ Depth = 0 /\ Len(prog) = 2
          /\ prog' = Append(prog, [k |-> "allops"])
          /\ env'  = Append(env, OneResults(env[1], env[2]))
          /\ UNCHANGED done

Full == IF Depth = 0 THEN Len(prog) = 3 ELSE Len(prog) = 2 + Depth
Ix   == {i \in 1..Len(env) : IsSet(env[i]) /\ IsKeyed(env[i])}
AllPool == UNION {PoolOf(k) : k \in Kinds}

StepMap == \E i \in Ix, f \in Fns : FnOK(f, env[i]) /\ ~Fails(f, env[i])
              /\ prog' = Append(prog, [k |-> "map", i |-> i, f |-> f])
              /\ env'  = Append(env, SeqMapR(env[i], f))
StepMap2 == \E i \in Ix, f \in Fns2 : Fn2OK(f, env[i]) /\ KeyOK(f, env[i])
              /\ prog' = Append(prog, [k |-> "map2", i |-> i, f |-> f])
              /\ env'  = Append(env, SeqMap2R(env[i], f))
StepCat == \E i \in Ix, j \in Ix : AllIntKeys(env[j])
              /\ prog' = Append(prog, [k |-> "cat", i |-> i, j |-> j])
              /\ env'  = Append(env, Concat(env[i], env[j]))
StepShift == \E i \in Ix, n \in Shifts : IsSeq(env[i])
              /\ prog' = Append(prog, [k |-> "shift", i |-> i, n |-> n])
              /\ env'  = Append(env, Shift(env[i], n))
StepWith == \E i \in Ix, e \in AllPool : KindsOf(env[i]) \subseteq {ValAttr(e)}
              /\ prog' = Append(prog, [k |-> "with", i |-> i, e |-> e])
              /\ env'  = Append(env, With(env[i], e))
StepWithout == \E i \in Ix, e \in AllPool :
              /\ prog' = Append(prog, [k |-> "without", i |-> i, e |-> e])
              /\ env'  = Append(env, Without(env[i], e))
StepCall == \E i \in Ix, k \in Keys :
              /\ prog' = Append(prog, [k |-> "call", i |-> i, key |-> k])
              /\ env'  = Append(env, Call(env[i], k))
Step == /\ Depth > 0 /\ Len(prog) >= 2 /\ ~Full
        /\ \/ "map" \in Steps /\ StepMap
           \/ "map2" \in Steps /\ StepMap2
           \/ "cat" \in Steps /\ StepCat
           \/ "shift" \in Steps /\ StepShift
           \/ "with" \in Steps /\ StepWith
           \/ "without" \in Steps /\ StepWithout
           \/ "call" \in Steps /\ StepCall
        /\ UNCHANGED done
Emit == /\ Full /\ ~done /\ done' = TRUE /\ UNCHANGED <<prog, env>>
        /\ PrintT(ToJson([spec |-> "Keyed", prog |-> prog, env |-> env]))
Next == Lit \/ AllOps \/ Step \/ Emit
Spec == Init /\ [][Next]_vars

TypeOK == Len(prog) = Len(env) /\ \A i \in DOMAIN env : prog[i].k = "lit" => IsKeyed(env[i])
AppendOnly == [][IsPrefix(env, env')]_vars
\* sanity laws for the oracle
Laws == (Len(env) = 3 /\ prog[3].k = "allops") =>
          LET r == env[3]  c == env[1] IN
          /\ \A q \in r.calls : /\ (q.r = Err /\ q.o = N(99)) = (Hits(c, q.k) = {})
                                /\ (q.r # Err => q.o = q.r /\ Ent(q.k, q.r).t["va"] \in Hits(c, q.k))
          /\ \A q \in r.maps  : q.r # Err => {At(t) : t \in q.r.s} = {At(t) : t \in c.s}
          /\ \A q \in r.maps  : q.f = "id" => q.r = c
          /\ \A q \in r.maps2 : q.f = "val" => q.r = c
          /\ \A q \in r.shifts : Shift(q.r, 0 - q.n) = c
          /\ (r.cat # Err => Cardinality(r.cat.s) <= Cardinality(c.s) + Cardinality(env[2].s))
=============================================================================
