SPECIFICATION Spec
CONSTANTS
  Alphabet = {0, 7, 9, 10, 13, 27, 31, 34, 39, 92, 36, 48, 55, 65, 70, 97, 102, 120, 127, 233, 8245, 65533, 128512}
  MaxLen = 3
  AttrIds = {"a", "x1", "x2", "x3", "x4", "x5", "x6", "x7", "x8", "x9", "at", "ch"}
PROPERTIES Identity
CHECK_DEADLOCK FALSE
