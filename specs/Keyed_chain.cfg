SPECIFICATION Spec
CONSTANTS
  Kinds = {"str", "arr", "bytes", "dict", "gen", "gen0"}
  MaxLit = 3
  Depth = 3
  Steps = {"map", "map2", "cat", "shift", "with", "without", "call"}
  SmallIdx = FALSE
INVARIANTS TypeOK Laws
PROPERTIES AppendOnly
CHECK_DEADLOCK FALSE
