SPECIFICATION Spec
CONSTANTS
  Kinds = {"str", "arr", "bytes", "dict", "gen"}
  MaxLit = 3
  Depth = 3
INVARIANTS TypeOK Laws
PROPERTIES AppendOnly
CHECK_DEADLOCK FALSE
