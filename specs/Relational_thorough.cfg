SPECIFICATION Spec
CONSTANTS
  AttrNames = {"a", "b", "c", "at", "it", "ch", "va"}
  MaxAttrs = 2
  MaxRows = 3
  Depth = 0
  Fork = FALSE
INVARIANTS TypeOK Laws
CHECK_DEADLOCK FALSE
