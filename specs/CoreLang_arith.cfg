SPECIFICATION Spec
CONSTANTS Mode = "arith"
INVARIANTS Preserved
CHECK_DEADLOCK FALSE
