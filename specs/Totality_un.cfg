SPECIFICATION Spec
CONSTANTS Mode = "un"
  MaxToks = 1
  LibArity = 1
  Small = FALSE
INVARIANTS Total
CHECK_DEADLOCK FALSE
