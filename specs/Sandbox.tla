------------------------------- MODULE Sandbox -------------------------------
(* Property C18: source evaluated through //eval.eval or //eval.evaluator(config).eval reaches   *)
(* only config.scope and config.stdlib (the safe library by default).                           *)
(*                                                                                          *)
(* The state is a configuration written by a trusted caller (which has the full library) and a   *)
(* sandboxed program under construction.  Library members carry capability labels (file, net,   *)
(* exec); Ev is the evaluator's scoping discipline: a `//` reference resolves lexically in the   *)
(* library of the evaluation it was compiled for, every syntactic position is transparent, and   *)
(* each nested evaluation route (//eval.value, //eval.eval, //eval.evaluator(c).eval, import     *)
(* syntax, macros - which the parser evaluates) starts from a library and scope determined by that route alone.  TLC checks           *)
(* Confined (what a program obtains is within what the configuration granted) and SafeClean on   *)
(* every state; the two as-is deviations found at the pinned commit are named switches (AsIs)    *)
(* under which TLC must find a violation (negative controls).  Every finished state is emitted   *)
(* and replayed through the real //eval.* functions; the capabilities of the value that comes    *)
(* back are measured by probing (calling what is callable with a canary file, a marker script,   *)
(* a loopback URL and escape sources).                                                        *)
EXTENDS Naturals, Sequences, FiniteSets, TLC, Json

CONSTANTS Mode,     \* "routesQ" | "routesT" | "posQ" | "posT" | "sim": which slice of the universe
          Steps,    \* wraps around the atom
          AsIs      \* subset of {"FallbackFullStd", "ExecInSafe"}: deviations of the pinned commit

VARIABLES cfg, prog, steps, done
vars == <<cfg, prog, steps, done>>

Caps == {"file", "net", "exec"}
Fallback   == "FallbackFullStd" \in AsIs   \* an unbound `//` silently becomes the full library:
                                          \* //eval.value and imports evaluate with an empty scope
ExecInSafe == "ExecInSafe" \in AsIs        \* //deprecated.exec is a member of the safe library

\* ---- the library ---------------------------------------------------------------------------
\* eval.value comes in two variants: the safe library's evaluates in the safe library, the full
\* library's evaluates in the full library (and so grants everything when it is passed in)
SafeInner == {"str.lower", "os.cwd", "grammar.lang.wbnf", "eval.value@s", "eval.eval", "eval.evaluator"}
             \cup (IF ExecInSafe THEN {"deprecated.exec"} ELSE {})
Safe == SafeInner \cup {"std.safe"}                       \* //std.safe is SafeInner again
Full == (Safe \ {"eval.value@s"}) \cup {"eval.value@f", "os.file", "net.http.get", "deprecated.exec"}
Members == Safe \cup Full

\* what a member was meant to convey (the grant) and what holding it yields in practice
GrantOf(m) == CASE m = "os.file" -> {"file"} [] m = "net.http.get" -> {"net"} [] m = "deprecated.exec" -> {"exec"}
                [] m = "eval.value@f" -> Caps [] OTHER -> {}
CapAct(m) == CASE m = "eval.value@s" -> (IF Fallback THEN Caps ELSE {})
               [] m = "std.safe" -> (IF ExecInSafe THEN {"exec"} ELSE {})
               [] OTHER -> GrantOf(m)
CapsOf(ms) == UNION {CapAct(m) : m \in ms}

Under(p) == CASE p = "str.lower" -> {"str.lower"} [] p = "str" -> {"str.lower"}
              [] p = "grammar.lang.wbnf" -> {"grammar.lang.wbnf"}
              [] p = "os.cwd" -> {"os.cwd"} [] p = "os.file" -> {"os.file"} [] p = "os" -> {"os.cwd", "os.file"}
              [] p = "net.http.get" -> {"net.http.get"} [] p = "net" -> {"net.http.get"}
              [] p = "deprecated.exec" -> {"deprecated.exec"} [] p = "deprecated" -> {"deprecated.exec"}
              [] p = "eval.value" -> {"eval.value@s", "eval.value@f"}
              [] p = "eval.eval" -> {"eval.eval"}
              [] p = "eval" -> {"eval.value@s", "eval.value@f", "eval.eval", "eval.evaluator"}
              [] OTHER -> {}
SafePaths == [p \in {"std.safe.os", "std.safe.os.file", "std.safe.deprecated.exec", "std.safe.eval.value", "std.safe.str.lower"} |->
                CASE p = "std.safe.os" -> "os" [] p = "std.safe.os.file" -> "os.file"
                  [] p = "std.safe.deprecated.exec" -> "deprecated.exec" [] p = "std.safe.eval.value" -> "eval.value"
                  [] OTHER -> "str.lower"]
Paths == {"str.lower", "str", "os.cwd", "os.file", "os", "net.http.get", "net", "deprecated.exec", "deprecated",
          "eval.value", "eval.eval", "eval", "std.safe"} \cup DOMAIN SafePaths
\* the members a `//p` reference denotes in library L; {} means the reference fails
Resolve(p, L) == IF p = "std.safe" THEN (IF "std.safe" \in L THEN SafeInner ELSE {})
                 ELSE IF p \in DOMAIN SafePaths THEN (IF "std.safe" \in L THEN Under(SafePaths[p]) \cap SafeInner ELSE {})
                 ELSE Under(p) \cap L
ValueOfPath(p, L) == IF p = "std.safe" /\ "std.safe" \in L THEN CapsOf(SafeInner) ELSE CapsOf(Resolve(p, L))

\* ---- the caller's configuration --------------------------------------------------------------
ScopeCaps == [n \in {"m", "f", "g", "h", "v"} |->
                CASE n = "f" -> {"file"}       \* f: //os.file
                  [] n = "g" -> {"net"}        \* g: \x //net.http.get   (a closure compiled outside)
                  [] n = "v" -> Caps           \* v: //eval.value        (the full library's)
                  [] OTHER -> {}]              \* m: a grammar (for macros), h: \x //str.lower
Absent == [base |-> "absent", os |-> "none", str |-> "none", net |-> "none", dep |-> "none", eval |-> "none"]
LibRec == [base : {"empty", "safe"}, os : {"none", "cwd", "file", "full"}, str : {"none", "yes"},
           net : {"none", "yes"}, dep : {"none", "yes"}, eval : {"none", "full", "safe", "only"}]
Override(L, top, opt, ms) == IF opt = "none" THEN L ELSE (L \ Under(top)) \cup ms
LibOf(lib) ==
  IF lib = Absent THEN Safe
  ELSE LET l0 == IF lib.base = "safe" THEN SafeInner ELSE {}
           l1 == Override(l0, "os", lib.os, CASE lib.os = "cwd" -> {"os.cwd"} [] lib.os = "file" -> {"os.file"} [] OTHER -> {"os.cwd", "os.file"})
           l2 == Override(l1, "str", lib.str, {"str.lower"})
           l3 == Override(l2, "net", lib.net, {"net.http.get"})
           l4 == Override(l3, "deprecated", lib.dep, {"deprecated.exec"})
       IN Override(l4, "eval", lib.eval, CASE lib.eval = "full" -> {"eval.value@f", "eval.eval", "eval.evaluator"}
                                           [] lib.eval = "safe" -> {"eval.value@s", "eval.eval", "eval.evaluator"}
                                           [] OTHER -> {"eval.eval", "eval.evaluator"})
ScopeOf(sc) == [n \in sc |-> ScopeCaps[n]]
Granted(c) == UNION {GrantOf(m) : m \in LibOf(c.lib)} \cup UNION {ScopeCaps[n] : n \in c.sc}

\* ---- sandboxed programs ---------------------------------------------------------------------
Lit        == [k |-> "lit"]
Ref(p)     == [k |-> "ref", p |-> p]            \* //p
Name(n)    == [k |-> "name", n |-> n]
Call(n)    == [k |-> "call", n |-> n]           \* n(0): a closure that returns a library function
Imp(m)     == [k |-> "imp", m |-> m]            \* //{./m}; m = "data" is //[//encoding.bytes]{./secret.txt}
Pos(i, a)  == [k |-> "pos", i |-> i, a |-> a]   \* a placed in syntactic position i (lambda body, let, pattern fallback, ...)
ViaValue(a) == [k |-> "value", a |-> a]         \* //eval.value("a")
ViaEval(a)  == [k |-> "eval", a |-> a]          \* //eval.eval("a")
ViaEvr(lib, bind, a) == [k |-> "evr", lib |-> lib, bind |-> bind, a |-> a]
                                                \* //eval.evaluator((stdlib: lib, scope: (k: bind))).eval("a")
\* {:(@grammar: G, @transform: (x: \ast a)): a :}: a macro whose transform is a; the parser evaluates
\* it.  G is the scope name m (MacS) or built with //grammar.lang.wbnf (MacL)
MacS(a) == [k |-> "macs", a |-> a]
MacL(a) == [k |-> "macl", a |-> a]
NoBind == [k |-> "none"]
\* what the module files contain
Content(m) == CASE m = "mod_file" -> Ref("os.file") [] m = "mod_pure" -> Ref("str.lower")
                [] m = "mod_exec" -> Ref("deprecated.exec") [] OTHER -> Lit
Mods == {"mod_file", "mod_pure", "mod_exec", "mod_lit"}

OK(c) == [ok |-> TRUE, caps |-> c]
Fail  == [ok |-> FALSE, caps |-> {}]

InnerLib(lib, L) == CASE lib = "absent" -> Safe [] lib = "empty" -> {}
                      [] lib = "safe" -> Resolve("std.safe", L)
                      [] OTHER -> Resolve(lib, L)                \* (lib: //lib)
InnerLibFails(lib, L) == lib \notin {"absent", "empty"} /\ InnerLib(lib, L) = {}

RECURSIVE Ev(_, _, _)
Ev(P, L, S) ==
  CASE P.k = "lit"  -> OK({})
    [] P.k = "ref"  -> IF Resolve(P.p, L) = {} THEN Fail ELSE OK(ValueOfPath(P.p, L))
    [] P.k = "name" -> IF P.n \in DOMAIN S THEN OK(S[P.n]) ELSE Fail
    [] P.k = "call" -> IF P.n \in DOMAIN S THEN OK(S[P.n]) ELSE Fail
    [] P.k = "imp"  -> IF P.m = "data"
                       THEN (IF Fallback \/ "os.file" \in L THEN OK({"file"}) ELSE Fail)    \* file contents enter the sandbox
                       ELSE Ev(Content(P.m), IF Fallback THEN Full ELSE L, <<>>)
    [] P.k = "pos"  -> Ev(P.a, L, S)
    [] P.k = "macs" -> IF "m" \in DOMAIN S THEN Ev(P.a, L, S) ELSE Fail
    [] P.k = "macl" -> IF "grammar.lang.wbnf" \in L THEN Ev(P.a, L, S) ELSE Fail
    [] P.k = "value" -> IF "eval.value@f" \in L THEN Ev(P.a, Full, <<>>)
                        ELSE IF "eval.value@s" \in L THEN Ev(P.a, IF Fallback THEN Full ELSE Safe, <<>>)
                        ELSE Fail
    [] P.k = "eval" -> IF "eval.eval" \in L THEN Ev(P.a, Safe, <<>>) ELSE Fail
    [] P.k = "evr"  -> IF "eval.evaluator" \notin L \/ InnerLibFails(P.lib, L) THEN Fail
                       ELSE IF P.bind = NoBind THEN Ev(P.a, InnerLib(P.lib, L), <<>>)
                       ELSE LET r == Ev(P.bind, L, S) IN
                            IF ~r.ok THEN Fail ELSE Ev(P.a, InnerLib(P.lib, L), [n \in {"k"} |-> r.caps])

RECURSIVE HasImp(_)
HasImp(P) == CASE P.k = "imp" -> TRUE
               [] P.k \in {"pos", "value", "eval", "macs", "macl"} -> HasImp(P.a)
               [] P.k = "evr" -> HasImp(P.a) \/ (P.bind # NoBind /\ HasImp(P.bind))
               [] OTHER -> FALSE

\* ---- universes -------------------------------------------------------------------------------
NPos == 38
RefAtoms == {Ref(p) : p \in Paths}
NameAtoms == {Name(n) : n \in {"n", "f", "g", "v", "k", "m"}} \cup {Call(n) : n \in {"g", "h"}}
ImpAtoms == {Imp(m) : m \in Mods \cup {"data"}}
Atoms == {Lit} \cup RefAtoms \cup NameAtoms \cup ImpAtoms
AtomsQ == {Lit, Ref("str.lower"), Ref("os.file"), Ref("os"), Ref("net.http.get"), Ref("deprecated.exec"), Ref("eval.value"),
           Ref("std.safe"), Ref("std.safe.deprecated.exec"), Name("f"), Name("k"), Call("g"), Imp("mod_file"), Imp("mod_lit"), Imp("data")}
Binds == {NoBind, Ref("os.file"), Ref("str.lower"), Ref("net.http.get"), Name("f"), Name("g"), Ref("eval.value")}
InnerLibs == {"absent", "empty", "os", "eval", "str", "safe", "net"}

L0(os, ev) == [base |-> "empty", os |-> os, str |-> "none", net |-> "none", dep |-> "none", eval |-> ev]
LibPool == {Absent,
            L0("none", "none"), L0("cwd", "only"), L0("file", "safe"), L0("full", "full"), L0("none", "safe"), L0("none", "full"),
            [base |-> "safe", os |-> "none", str |-> "none", net |-> "none", dep |-> "none", eval |-> "none"],
            [base |-> "safe", os |-> "file", str |-> "none", net |-> "none", dep |-> "none", eval |-> "none"],
            [base |-> "safe", os |-> "none", str |-> "none", net |-> "yes", dep |-> "none", eval |-> "only"],
            [base |-> "safe", os |-> "cwd", str |-> "yes", net |-> "none", dep |-> "yes", eval |-> "full"],
            [base |-> "empty", os |-> "none", str |-> "yes", net |-> "yes", dep |-> "none", eval |-> "only"]}
ScPool == {{}, {"m", "f"}, {"g", "h"}, {"v"}, {"m", "f", "g", "h", "v"}}
CfgPool == [lib : LibPool, sc : ScPool]
CfgSmall == {[lib |-> Absent, sc |-> {}], [lib |-> L0("none", "safe"), sc |-> {"f", "g"}],
             [lib |-> L0("cwd", "only"), sc |-> {"m"}], [lib |-> L0("full", "full"), sc |-> {"h", "m"}]}
CfgAll == [lib : {Absent} \cup LibRec, sc : SUBSET {"m", "f", "g", "h", "v"}]

Routes(a) == {ViaValue(a), ViaEval(a), MacS(a), MacL(a)} \cup {ViaEvr(l, b, a) : l \in InnerLibs, b \in Binds}
RoutesQ(a) == {ViaValue(a), ViaEval(a), MacS(a), MacL(a)} \cup {ViaEvr(l, b, a) : l \in {"absent", "empty", "eval", "safe"}, b \in {NoBind, Ref("os.file"), Name("f")}}
RoutesP(a) == {ViaEval(a), ViaEvr("empty", NoBind, a), ViaEvr("eval", Name("f"), a), MacS(a)}
Positions(a) == {Pos(i, a) : i \in 1..NPos}
ScPoolQ == {{}, {"m", "f"}, {"m", "f", "g", "h", "v"}}
IsAtom(P) == P.k \in {"lit", "ref", "name", "call", "imp"}

Init == /\ cfg \in (CASE Mode = "routesQ" -> [lib : LibPool, sc : ScPoolQ] [] Mode = "routesT" -> CfgPool [] Mode \in {"posQ", "posT"} -> CfgSmall [] OTHER -> CfgAll)
        /\ prog \in (IF Mode \in {"routesQ", "posQ"} THEN AtomsQ ELSE Atoms)
        /\ steps = 0 /\ done = FALSE
Wrap == /\ steps < Steps /\ ~done /\ steps' = steps + 1 /\ UNCHANGED <<cfg, done>>
        /\ prog' \in (CASE Mode = "routesQ" -> RoutesQ(prog)
                        [] Mode = "routesT" -> (IF steps = 0 THEN Routes(prog)
                                                ELSE IF prog \in UNION {RoutesQ(a) : a \in AtomsQ} THEN RoutesQ(prog) ELSE {})
                        [] Mode = "posQ" -> (IF IsAtom(prog) THEN Positions(prog) ELSE RoutesP(prog))
                        [] Mode = "posT" -> (IF IsAtom(prog) THEN Positions(prog) ELSE RoutesQ(prog))
                        [] OTHER -> Routes(prog) \cup Positions(prog))
Outcome == Ev(prog, LibOf(cfg.lib), ScopeOf(cfg.sc))
Emit == /\ ~done /\ done' = TRUE /\ UNCHANGED <<cfg, prog, steps>>
        /\ PrintT(ToJson([spec |-> "Sandbox", cfg |-> cfg, prog |-> prog, ok |-> Outcome.ok, caps |-> Outcome.caps,
                          granted |-> Granted(cfg), imp |-> HasImp(prog)]))
Next == Wrap \/ Emit
Spec == Init /\ [][Next]_vars

\* ---- properties ------------------------------------------------------------------------------
\* whatever a sandboxed program evaluates to conveys no capability the configuration did not grant
Confined == Outcome.ok => Outcome.caps \subseteq Granted(cfg)
\* the safe library conveys none of them
SafeClean == CapsOf(Safe) = {} /\ UNION {GrantOf(m) : m \in Safe} = {}
\* a reference to a member the library lacks fails
UngrantedFails == (prog.k = "ref" /\ Resolve(prog.p, LibOf(cfg.lib)) = {}) => ~Outcome.ok
=============================================================================
