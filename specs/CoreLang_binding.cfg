SPECIFICATION Spec
CONSTANTS Mode = "binding"
INVARIANTS Preserved
CHECK_DEADLOCK FALSE
