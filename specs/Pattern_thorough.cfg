SPECIFICATION Spec
CONSTANTS Deep = TRUE
INVARIANTS RebuildLaw
CHECK_DEADLOCK FALSE
