SPECIFICATION ScenSpec
CONSTANTS
  Files = {"a", "b", "c"}
  G = {"g1", "g2", "g3"}
  OwnStackCheck = TRUE
  BroadcastOnAbandon = TRUE
  AllowCycles = TRUE
CHECK_DEADLOCK FALSE
