------------------------------- MODULE OutDir -------------------------------
(* Property C19: `--out=dir:PATH` writes exactly the tree the result dictionary describes,     *)
(* combined with what is already there according to each entry's ifExists rule, or - if the    *)
(* description is invalid anywhere - changes nothing.  This module is the documented meaning    *)
(* (docs/docs/cli/eval.md): a file tree is a set of nodes [p |-> path, c |-> "dir" | content];   *)
(* Run(d, prior) is the tree after the command, or Invalid (=> the tree must equal prior), or    *)
(* Unspec where the documentation is silent (a file entry over an existing directory, a dict     *)
(* over an existing file): then only "error => nothing changed" is required.                   *)
EXTENDS Integers, Sequences, SequencesExt, FiniteSets, TLC, Json

CONSTANTS Priors,        \* which prior trees to use (indices)
          RichB          \* how far key "b" ranges over the entry universe: "no" | "dicts" | "full"

VARIABLES case, done
vars == <<case, done>>

Keys == {"a", "b"}
Invalid == [invalid |-> TRUE]
Unspec  == [unspec |-> TRUE]
IsTree(x) == "nodes" \in DOMAIN x
Tree(ns) == [nodes |-> ns]
Node(p, c) == [p |-> p, c |-> c]
Exists(t, p) == \E n \in t.nodes : n.p = p
KindAt(t, p) == IF ~Exists(t, p) THEN "absent" ELSE LET n == CHOOSE n \in t.nodes : n.p = p IN IF n.c = "dir" THEN "dir" ELSE "file"
RemoveSub(t, p) == Tree({n \in t.nodes : ~IsPrefix(p, n.p)})
PutFile(t, p, c) == Tree({n \in t.nodes : n.p # p} \cup {Node(p, c)})
PutDir(t, p) == IF Exists(t, p) THEN t ELSE Tree(t.nodes \cup {Node(p, "dir")})

\* ---- entries ---------------------------------------------------------------------------------
\* leaves
File(c)  == [t |-> "file", c |-> c]           \* string (c = "c1"), byte array ("c2"), "" / {} ("c0")
BadNum   == [t |-> "num"]                     \* 42: not a valid entry
BadSet   == [t |-> "set"]                     \* {1}: not a valid entry
\* hd: has a dir attribute (its dict is dir); file: "-" = attribute absent
Cfg(ife, hd, dir, file) == [t |-> "cfg", ife |-> ife, hd |-> hd, dir |-> dir, file |-> file]
Ifes == {"none", "ignore", "replace", "merge", "remove", "fail"}
Entry0 == {File("c1"), File("c2"), File("c0"), BadNum, BadSet}
          \cup {Cfg(x, FALSE, <<>>, "c1") : x \in {"none", "ignore", "replace", "fail", "merge", "bogus", "num"}}
          \cup {Cfg(x, TRUE, <<>>, "-") : x \in {"none", "ignore", "replace", "merge", "fail"}}        \* (dir: {})
          \cup {Cfg(x, FALSE, <<>>, "cnum") : x \in {"none", "ignore", "replace"}}                   \* (file: 42): not a string or byte array
          \cup {Cfg("remove", FALSE, <<>>, "-"), Cfg("remove", FALSE, <<>>, "c1"), Cfg("replace", FALSE, <<>>, "-"), Cfg("none", FALSE, <<>>, "-")}
\* dictionaries are functions from a subset of Keys to entries (written as sequences of <<key, entry>> for ToJson)
Dicts0 == {<<>>} \cup {<< <<"a", e>> >> : e \in Entry0}
Entry1 == Entry0 \cup {[t |-> "dict", d |-> d] : d \in Dicts0 \ {<<>>}}    \* {} alone is the empty FILE (File("c0")), see the docs
                 \cup {Cfg(x, TRUE, d, "-") : x \in {"none", "replace", "merge", "ignore"}, d \in Dicts0 \ {<<>>}}
\* RichB: "no" (simple entries), "dicts" (also plain nested dicts: a directory where the prior tree may
\* hold a file), "full"
TopB == CASE RichB = "full" -> Entry1
          [] RichB = "dicts" -> Entry0 \cup {[t |-> "dict", d |-> d] : d \in Dicts0 \ {<<>>}}
          [] OTHER -> Entry0
\* top-level key variants that are not a single path segment: the description is invalid
BadKeys == {"numkey", "dotdot", "dot", "empty"}    \* "a/b" style keys address nested paths (pinned by the suite)

\* ---- meaning -------------------------------------------------------------------------------
RECURSIVE ApplyDict(_, _, _), ApplyEntry(_, _, _)
\* apply the entries of d (a sequence of <<key, entry>>) inside directory p
ApplyDict(t, p, d) ==
  IF ~IsTree(t) THEN t
  ELSE IF d = <<>> THEN t
  ELSE ApplyDict(ApplyEntry(t, Append(p, d[1][1]), d[1][2]), p, Tail(d))
DirInto(t, p, d) ==        \* "merge": make sure p is a directory, then apply d inside it
  IF KindAt(t, p) = "file" THEN Unspec ELSE ApplyDict(PutDir(t, p), p, d)
FileInto(t, p, c) ==       \* "replace" for files
  IF c = "cnum" THEN Invalid ELSE IF KindAt(t, p) = "dir" THEN Unspec ELSE PutFile(t, p, c)
Plain(t, p, e) ==          \* (dir: d) / (file: c) without ifExists, and the shorthands
  IF e.hd /\ e.file # "-" THEN Unspec
  ELSE IF e.hd THEN DirInto(t, p, e.dir)
  ELSE IF e.file # "-" THEN FileInto(t, p, e.file)
  ELSE Invalid                                   \* exactly one of dir / file must exist
ApplyEntry(t, p, e) ==
  IF ~IsTree(t) THEN t
  ELSE CASE e.t = "file" -> FileInto(t, p, e.c)
    [] e.t = "dict" -> DirInto(t, p, e.d)
    [] e.t \in {"num", "set"} -> Invalid
    [] e.t = "cfg" ->
         IF e.ife \in {"bogus", "num"} THEN Invalid
         ELSE IF e.ife = "merge" /\ e.file # "-" THEN Invalid
         ELSE IF e.ife = "none" THEN Plain(t, p, e)
         ELSE IF ~Exists(t, p) THEN (IF e.ife = "remove" THEN (IF e.hd \/ e.file # "-" THEN Unspec ELSE t) ELSE Plain(t, p, e))
         ELSE CASE e.ife = "remove"  -> IF e.hd \/ e.file # "-" THEN Invalid ELSE RemoveSub(t, p)
                [] e.ife = "replace" -> IF e.hd = (e.file # "-") THEN Invalid ELSE Plain(RemoveSub(t, p), p, e)
                [] e.ife = "merge"   -> IF ~e.hd THEN Invalid ELSE DirInto(t, p, e.dir)
                [] e.ife = "ignore"  -> IF e.file = "cnum" THEN Unspec ELSE t     \* ignored, so never looked at: not stated
                [] e.ife = "fail"    -> Invalid
Root == <<"out">>
\* Unspec inside means the whole outcome is Unspec; Invalid anywhere means Invalid
Run(d, prior, badkey) ==
  IF badkey # "ok" THEN Invalid
  ELSE ApplyDict(PutDir(prior, Root), Root, d)

\* ---- prior trees -----------------------------------------------------------------------------
P(s) == Root \o s
PriorTree(i) ==
  CASE i = 0 -> Tree({})
    [] i = 1 -> Tree({Node(Root, "dir")})
    [] i = 2 -> Tree({Node(Root, "dir"), Node(P(<<"a">>), "c9")})
    [] i = 3 -> Tree({Node(Root, "dir"), Node(P(<<"a">>), "dir"), Node(P(<<"a", "a">>), "c9")})
    [] i = 4 -> Tree({Node(Root, "dir"), Node(P(<<"a">>), "c9"), Node(P(<<"b">>), "dir")})
    [] i = 5 -> Tree({Node(Root, "dir"), Node(P(<<"a">>), "dir"), Node(P(<<"a", "a">>), "c9"), Node(P(<<"a", "b">>), "c8"), Node(P(<<"b">>), "c7")})

TopDicts == {<<>>} \cup {<< <<"a", ea>> >> : ea \in Entry1} \cup {<< <<"b", eb>> >> : eb \in TopB}
            \cup {<< <<"a", ea>>, <<"b", eb>> >> : ea \in Entry1, eb \in TopB}

Init == case = [k |-> "none"] /\ done = FALSE
Pick == /\ case.k = "none" /\ UNCHANGED done
        /\ \E d \in TopDicts, i \in Priors, bk \in {"ok"} \cup BadKeys :
             /\ (bk # "ok" => Len(d) = 1)                      \* a bad key is tried next to one ordinary entry
             /\ case' = [k |-> "out", d |-> d, prior |-> i, badkey |-> bk,
                         before |-> PriorTree(i), after |-> Run(d, PriorTree(i), bk)]
Emit == /\ case.k # "none" /\ ~done /\ done' = TRUE /\ UNCHANGED case
        /\ PrintT(ToJson([spec |-> "OutDir", c |-> case]))
Next == Pick \/ Emit
Spec == Init /\ [][Next]_vars

\* sanity: nothing outside PATH is ever described, and a valid run keeps PATH a directory
InsidePath == (case.k = "out" /\ IsTree(case.after)) =>
                 /\ \A n \in case.after.nodes : IsPrefix(Root, n.p)
                 /\ KindAt(case.after, Root) = "dir"
\* entries that do not mention a path leave it alone (ignore keeps, merge overlays)
Frame == (case.k = "out" /\ IsTree(case.after) /\ Len(case.d) = 1 /\ case.d[1][1] = "a") =>
            \A n \in case.before.nodes : (IsPrefix(P(<<"b">>), n.p)) => n \in case.after.nodes
=============================================================================
