SPECIFICATION Spec
CONSTANTS
  AttrNames = {"a", "b", "c", "at", "it"}
  MaxAttrs = 2
  MaxRows = 2
  Depth = 2
INVARIANTS TypeOK
CHECK_DEADLOCK FALSE
