#!/bin/bash
# keep_seed.sh <seed-id> <property> <diff> <demo> <needs> <ran> <caught_by>
set -e
ID="$1"; D=/verif/seeded/$ID; mkdir -p $D
cp "$3" $D/patch.diff; cp "$4" $D/$(basename "$4")
python3 - "$@" <<'PY'
import json,sys
id,prop,diff,demo,needs,ran,caught=sys.argv[1:8]
json.dump({"id":id,"breaks_property":prop,"needs_to_manifest":needs,"demo":demo.split('/')[-1],"what_i_ran":ran,"caught_by":caught,
 "confirmed":"tools/verify_seed.sh: applies to a scratch worktree of /repo HEAD, go build ./... ok, 775 stable baseline tests pass, demo exits 0 without the change and non-zero with it"},
 open(f"/verif/seeded/{id}/meta.json","w"),indent=1)
PY
echo kept $ID
