#!/usr/bin/env python3
"""Run the repository's baseline suite (guard OFF) and compare with BASELINE.json's stable_pass.
usage: baseline.py [repo_dir] [extra go test args, e.g. -tags verif]"""
import json, subprocess, sys, os
repo = sys.argv[1] if len(sys.argv) > 1 else '/repo'
extra = sys.argv[2:]
env = dict(os.environ, GOFLAGS='-mod=mod', GOPROXY='off')
p = subprocess.run(['go', 'test'] + extra + ['-json', '-vet=off', '-count=1', '-timeout', '25m', './...'],
                   cwd=repo, env=env, capture_output=True, text=True)
passed, failed = set(), set()
for line in p.stdout.splitlines():
    try:
        e = json.loads(line)
    except Exception:
        continue
    if 'Test' in e and e.get('Action') in ('pass', 'fail'):
        (passed if e['Action'] == 'pass' else failed).add(e['Package'] + '::' + e['Test'])
stable = set(json.load(open('/root/.vp/BASELINE.json'))['stable_pass'])
missing = sorted(stable - passed)
print(f'passed={len(passed)} failed={len(failed)} stable={len(stable)} stable_not_passed={len(missing)}')
for m in missing[:40]:
    print('  NOT PASSED:', m)
extra_fail = sorted(failed - {f for f in failed if f not in stable} )
sys.exit(1 if missing else 0)
