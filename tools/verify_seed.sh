#!/bin/bash
# verify_seed.sh <diff> <demo>   -- confirms a seeded change in a scratch worktree of /repo's HEAD:
#   builds, keeps the stable baseline green, and its demo fails with the change and passes without.
set -u
DIFF="$1"; DEMO="$2"
export GOFLAGS=-mod=mod GOPROXY=off
WT=/tmp/vseed-$$
git -C /repo worktree add -q --detach $WT HEAD || exit 2
cleanup() { git -C /repo worktree remove --force $WT; }
trap cleanup EXIT
cd $WT
rundemo() {
  case "$DEMO" in
    *_test.go) PKG=$(grep -m1 '^package ' "$DEMO" | awk '{print $2}'); DIR=$(grep -rl --include=*.go "^package $PKG\$" . | grep -v _test | head -1 | xargs dirname); [ -z "$DIR" ] && DIR=syntax
       cp "$DEMO" $DIR/zz_seed_demo_test.go; go test -vet=off -count=1 -run 'TestSeed' -timeout 120s ./$DIR > /tmp/vseed-demo-$$.log 2>&1; rc=$?; rm -f $DIR/zz_seed_demo_test.go; return $rc;;
    *.sh) mkdir -p _seed; cp -r "$(dirname "$DEMO")"/* _seed/ 2>/dev/null; go build -o /tmp/vseed-arrai-$$ ./cmd/arrai || return 3; REPO=$WT WORKTREE=$WT ROOT=$WT TREE=$WT ARRAI=/tmp/vseed-arrai-$$ bash "_seed/$(basename "$DEMO")" "$WT" > /tmp/vseed-demo-$$.log 2>&1; rc=$?; rm -rf _seed; return $rc;;
    *.go) mkdir -p /tmp/vseed-prog-$$; cp "$DEMO" cmd/zz_seed_demo_main.go 2>/dev/null; return 4;;
  esac
}
rundemo; base=$?
echo "demo on unchanged tree: exit=$base"
git apply "$DIFF" || { echo "APPLY FAILED"; exit 2; }
go build ./... || { echo "BUILD FAILED"; exit 2; }
rundemo; mut=$?
echo "demo with change: exit=$mut"; tail -5 /tmp/vseed-demo-$$.log | cut -c1-200
python3 /verif/tools/baseline.py $WT | head -5
rm -f /tmp/vseed-demo-$$.log /tmp/vseed-arrai-$$
git checkout -q -- .
