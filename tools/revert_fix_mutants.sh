#!/bin/bash
# revert_fix_mutants.sh [FX-id ...] -- sensitivity: every repair recorded in known-findings.json is a realistic
# regression when reverted. For each: scratch worktree of /repo HEAD, git revert --no-commit <commit>, run the quick
# check of the property the repair belongs to against it. CAUGHT = exit 1, MISSED = exit 0, SKIP = revert conflicts.
set -u
export GOFLAGS=-mod=mod GOPROXY=off
cd /verif
python3 - "$@" > .work/fx-list.txt <<'PY'
import json,sys
d=json.load(open('/verif/known-findings.json'))
want=set(sys.argv[1:])
for f in d['findings']:
    if f.get('status')=='fixed' and (not want or f['id'] in want):
        print(f['id'], f['commit'], f['property'][0])
PY
while read id commit prop; do
  WT=/tmp/verif-mutwt   # one fixed path: the Go build cache is keyed by directory, a fresh path per mutant filled the disk
  git -C /repo worktree remove --force $WT 2>/dev/null
  git -C /repo worktree add -q --detach $WT HEAD || { echo "$id ERROR worktree"; continue; }
  cp /repo/pkg/shell/verif_on.go $WT/pkg/shell/ 2>/dev/null
  if ! (cd $WT && git revert --no-commit $commit >/dev/null 2>&1); then echo "$id SKIP revert of $commit conflicts ($prop)"; git -C /repo worktree remove --force $WT; continue; fi
  if ! (cd $WT && go build ./... >/dev/null 2>&1); then echo "$id SKIP does not build after revert ($prop)"; git -C /repo worktree remove --force $WT; continue; fi
  VERIF_REPO=$WT ./check $prop --tier quick > .work/fxmut-$id.log 2>&1; rc=$?
  case $rc in
    1) echo "$id CAUGHT by $prop quick ($(grep -c '^VIOLATION' .work/fxmut-$id.log) signatures) -- $(git -C /repo log --format=%s -1 $commit | cut -c1-90)";;
    0) echo "$id MISSED by $prop quick -- $(git -C /repo log --format=%s -1 $commit | cut -c1-90)";;
    *) echo "$id ERROR exit=$rc $(tail -1 .work/fxmut-$id.log | cut -c1-100)";;
  esac
  git -C /repo worktree remove --force $WT
done < .work/fx-list.txt
