#!/bin/bash
# recheck_seeds.sh [id ...] -- for every kept seeded change: apply it to a scratch worktree of /repo's HEAD
# and run the quick check named in its meta.json (first "Cnn" of caught_by) against that worktree.
# Prints one line per seed: CAUGHT (exit 1 with a VIOLATION line), MISSED (exit 0) or ERROR.
set -u
export GOFLAGS=-mod=mod GOPROXY=off
cd /verif
ids=("$@"); [ ${#ids[@]} -eq 0 ] && ids=($(ls seeded))
for id in "${ids[@]}"; do
  d=seeded/$id
  prop=$(python3 -c "import json,re;m=json.load(open('$d/meta.json'));print(re.search(r'C\d\d',m['caught_by']).group(0))")
  WT=/tmp/verif-mutwt   # one fixed path: the Go build cache is keyed by directory, a fresh path per seed filled the disk
  git -C /repo worktree remove --force $WT 2>/dev/null
  git -C /repo worktree add -q --detach $WT HEAD || { echo "$id ERROR worktree"; continue; }
  cp /repo/pkg/shell/verif_on.go $WT/pkg/shell/ 2>/dev/null
  if ! (cd $WT && git apply /verif/$d/patch.diff 2>/dev/null); then echo "$id ERROR patch does not apply"; git -C /repo worktree remove --force $WT; continue; fi
  VERIF_REPO=$WT ./check $prop --tier quick > .work/reseed-$id.log 2>&1; rc=$?
  n=$(grep -c "^VIOLATION" .work/reseed-$id.log)
  case $rc in
    1) echo "$id CAUGHT by $prop ($n violation signatures)";;
    0) echo "$id MISSED by $prop";;
    *) echo "$id ERROR exit=$rc $(tail -1 .work/reseed-$id.log | cut -c1-120)";;
  esac
  git -C /repo worktree remove --force $WT
done
