#!/usr/bin/env python3
"""Generates /verif/MANIFEST.json from the table below (single source of truth for the interface)."""
import json, subprocess

def repo_log():
    out = subprocess.run(['git', '-C', '/repo', 'log', '--format=%H %s'], capture_output=True, text=True).stdout
    return [l.split(' ', 1) for l in out.splitlines()]

MC = "model_checking"
claimed = {
 "C01": (MC, "TLC enumerates all ordered pairs of literals over a boundary-crossing element pool and computes every set-algebra result with TLA+'s own finite-set operators (plus simulated operator chains); every pair is replayed against the real code in several construction recipes and compared by denotation, with Count/Has/enumeration cross-checks. Exhaustive within the pool, so any change that alters an operator on some representation pair in the pool is seen.",
         "TLC's set semantics; denotation walker over the public rel API; renderer checked per recipe; superimposed entries and byte gaps are recorded known findings and therefore masked",
         "TLA+ SetAlgebra spec, TLC exhaustive enumeration + simulation, conformance replay in worker processes"),
 "C02": (MC, "Same SetAlgebra model: the spec decides equality of denotations; every pair of recipes of every pair of literals is observed at every observation point the property names (=, !=, set collapse, dict key, repr, tuple/set wrapping), and every pair of bindings in simulated chains.",
         "as C01", "TLA+ SetAlgebra spec (denotational equality), TLC enumeration, conformance replay"),
 "C03": (MC, "The spec's env is append-only (checked by TLC as an action property); TLC enumerates branching derivation histories exhaustively (one parent, several with/without derivations, incl. parents built over slices with spare capacity) and simulates SetAlgebra/Keyed chains; the replay keeps every live Go value and re-reads every earlier binding after every later step.",
         "as C01; aliasing is only observable through the public API (Enumerator/Count/Has)", "TLA+ SetAlgebra/Keyed specs (AppendOnly), TLC exhaustive branching histories, API-level replay with re-snapshot after each step"),
 "C05": (MC, "Keyed spec defines call, ?:, >>, >>>, ++ and n\\ on the denoted set of (@, x) pairs; TLC enumerates all ordered pairs of collections over per-kind pools with offsets, holes and duplicate keys, 10 argument kinds and 8 transformers, exhaustively, plus simulated chains; replay compares value or 'is an error'.",
         "as C01; errors compared as errors, not by message", "TLA+ Keyed spec, TLC exhaustive enumeration + simulation, conformance replay"),
 "C12": (MC, "PrintParse spec: Reprint is the identity on denotations; TLC enumerates the value universe (escape-hostile strings at several offsets, holes, sparse/offset arrays, offset bytes, multi-valued dicts, unusual attribute names, one level of nesting) exhaustively; each value is built through the API, printed by fu.Repr and //str.repr, parsed back and compared; reprint steps also occur in simulated SetAlgebra chains.",
         "values are built through the rel API so the parser only sees printed text; numbers are integers and halves", "TLA+ PrintParse spec, TLC exhaustive enumeration, print->parse->denote replay"),
}

titles = {}
for l in open('/verif/properties.jsonl'):
    p = json.loads(l)
    titles[p['id']] = p['title']

import importlib.util, os
extra = os.path.join(os.path.dirname(__file__), 'manifest_extra.py')
if os.path.exists(extra):
    spec = importlib.util.spec_from_file_location('manifest_extra', extra)
    m = importlib.util.module_from_spec(spec); spec.loader.exec_module(m)
    claimed.update(m.claimed)
    not_applicable_reasons = getattr(m, 'not_applicable_reasons', {})
else:
    not_applicable_reasons = {}

checks = []
for pid in sorted(claimed):
    lvl, text, note, tech = claimed[pid]
    checks.append({
        "property_id": pid,
        "quick_cmd": f"./check {pid} --tier quick",
        "thorough_cmd": f"./check {pid} --tier thorough",
        "evidence_file": f"/verif/evidence/{pid}.json",
        "replay_cmd_template": f"./check {pid} --replay {{path}}",
        "engine": "vcheck",
        "level_claimed": {"category": lvl, "text": text, "design_ref": f"DESIGN.md section 6, {pid}"},
        "level_note": note,
        "technique": tech,
    })
na = []
for pid in sorted(titles):
    if pid not in claimed:
        na.append({"property_id": pid, "reason": not_applicable_reasons.get(pid, "check not built yet in this session; planned with the same technique (see DESIGN.md section 6)")})

log = repo_log()
hooks = [h for h, s in log if s.startswith('verif:') or s.startswith('hook')]
manifest = {
    "version": 1,
    "setup_cmd": "cd /verif && mkdir -p .work/bin && cp /repo/go.sum harness/go.sum && cd harness && GOFLAGS=-mod=mod GOPROXY=off go build -tags verif -o ../.work/bin/vcheck . && GOFLAGS=-mod=mod GOPROXY=off go build -race -tags verif -o ../.work/bin/vcheck-race .",
    "hooks": {
        "guard": "verif",
        "enable": "go build -tags verif (the harness module replaces github.com/arr-ai/arrai with /repo and is built with the tag)",
        "baseline_off_cmd": "cd /repo && GOFLAGS=-mod=mod GOPROXY=off go test -json -vet=off -count=1 -timeout 25m ./...",
        "source_commits": hooks,
        "add_only": True,
    },
    "engines": [{"name": "vcheck", "path": "/verif/harness", "serves_properties": sorted(claimed),
                 "kind_free_text": "Go orchestrator: runs TLC on specs/*.tla, streams the emitted cases/behaviours to worker processes that drive the real code (built from /repo with -tags verif), validates recorded traces with TLC, classifies against known-findings.json, writes evidence"}],
    "checks": checks,
    "not_applicable": na,
    "notes": "Exit 0 = held on everything explored (KNOWN-FINDING lines for recorded defects), 1 = VIOLATION, 2 = infrastructure failure (never a violation). VERIF_SEED selects TLC simulation seeds and recipe rotation. known-findings.json is read-only at run time.",
}
json.dump(manifest, open('/verif/MANIFEST.json', 'w'), indent=1)
print("claimed:", sorted(claimed), "not_applicable:", [x['property_id'] for x in na])
