MC = "model_checking"
claimed = {
 "C04": (MC, "Relational spec defines <&> by set comprehension, the seven other operators as the documented projections over the x/y/z attribute partition, nest/unnest and rank; TLC checks sanity laws (equal headings = intersection, disjoint = product, every variant is a projection of <&>, unnest inverts nest) and enumerates all ordered pairs of relations over every heading of the alphabet (incl. @, @item, @char, @value) exhaustively, plus simulated chains whose operands are earlier results; replay in several recipes incl. every column order.",
         "as C01; rank keys numeric only", "TLA+ Relational spec, TLC exhaustive enumeration + simulation, conformance replay"),
}
not_applicable_reasons = {}
claimed["C14"] = (MC, "SeqLib spec defines contains, has_prefix/suffix, trim_*, split, join, concat, repeat and sub on TLA+ sequences from textbook definitions; TLC checks the laws the property names (join inverts split, contains iff split splits, trim removes exactly a present prefix/suffix) and enumerates ALL (pattern, subject) pairs and (old, new, subject) triples over a small alphabet exhaustively; each case is evaluated as string, byte array and array and compared with the spec (and with each other where the spec is Unspec).",
   "letters map to chars/bytes 96+k and numbers k; the empty sequence is {} in all representations; empty delimiter/old pattern only require the three representations to correspond", "TLA+ SeqLib spec, TLC exhaustive enumeration, conformance replay in three representations")
