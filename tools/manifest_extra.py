MC = "model_checking"
claimed = {
 "C04": (MC, "Relational spec defines <&> by set comprehension, the seven other operators as the documented projections over the x/y/z attribute partition, nest/unnest and rank; TLC checks sanity laws (equal headings = intersection, disjoint = product, every variant is a projection of <&>, unnest inverts nest) and enumerates all ordered pairs of relations over every heading of the alphabet (incl. @, @item, @char, @value) exhaustively, plus simulated chains whose operands are earlier results; replay in several recipes incl. every column order.",
         "as C01; rank keys numeric only", "TLA+ Relational spec, TLC exhaustive enumeration + simulation, conformance replay"),
}
not_applicable_reasons = {}
