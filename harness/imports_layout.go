package main

import (
	"context"
	"encoding/json"
	"fmt"
	"strings"

	"github.com/spf13/afero"

	"github.com/arr-ai/arrai/pkg/arraictx"
	"github.com/arr-ai/arrai/pkg/ctxfs"
	"github.com/arr-ai/arrai/syntax"
)

// nested module roots: //{/x} resolves against the nearest sentinel above the importing file, also
// when another directory's root was resolved earlier in the same evaluation.
func handleImportLayout(raw json.RawMessage) *Obs {
	var cs struct {
		C struct {
			Sent   [][]string `json:"sent"`
			D1, D2 []string
			First  bool
			R1, R2 []string
		} `json:"c"`
	}
	if err := json.Unmarshal(raw, &cs); err != nil {
		return &Obs{Fails: []Fail{{Sig: Signature{Symptom: "bad-case"}, Detail: err.Error()}}}
	}
	c := cs.C
	obs := &Obs{Evals: 1, Key: string(raw)}
	if len(c.Sent) >= 2 {
		obs.NonTrivial = 1
	}
	mem := afero.NewMemMapFs()
	markers := map[string]int{}
	for i, d := range []string{"/m", "/m/d", "/m/d/e"} {
		markers[d] = 201 + i
		afero.WriteFile(mem, d+"/x.arrai", []byte(fmt.Sprint(201+i)), 0o644)
		afero.WriteFile(mem, d+"/entry.arrai", []byte("//{/x}"), 0o644)
	}
	for _, s := range c.Sent {
		afero.WriteFile(mem, "/"+strings.Join(s, "/")+"/go.mod", []byte("module example.com/"+strings.Join(s, "/")+"\n"), 0o644)
	}
	d1 := "/" + strings.Join(c.D1, "/")
	rel := strings.Join(c.D2[len(c.D1):], "/")
	second := "//{./entry}"
	if rel != "" {
		second = "//{./" + rel + "/entry}"
	}
	parts := []string{"//{/x}", second}
	exp := [][]string{c.R1, c.R2}
	if !c.First {
		parts[0], parts[1] = parts[1], parts[0]
		exp[0], exp[1] = exp[1], exp[0]
	}
	src := "[" + parts[0] + ", " + parts[1] + "]"
	obs.Sample = fmt.Sprintf("sentinels %v; %s/main.arrai = %s; entry.arrai (in %v) = //{/x}", c.Sent, d1, src, c.D2)
	fs := &recFs{Fs: mem}
	ctx := ctxfs.SourceFsOnto(arraictx.InitRunCtx(context.Background()), fs)
	var o Outcome
	msg, frame, p := catch(func() { o.V, o.Err = syntax.EvaluateExpr(ctx, d1+"/main.arrai", src) })
	if p {
		o = Outcome{Panic: msg, Frame: frame}
	}
	fail := func(sym, msgc, detail string) {
		obs.Fails = append(obs.Fails, Fail{Sig: Signature{Op: "import-layout", Symptom: sym, Msg: msgc, Frame: o.Frame},
			Detail: fmt.Sprintf("sentinels at %v; %s/main.arrai = %s; every entry.arrai = //{/x}\n%s", c.Sent, d1, src, detail), Source: src})
	}
	if o.Kind() == "panic" {
		fail("panic", classifyMsg(o.Panic), o.String())
		return obs
	}
	wantErr := false
	var want []*AV
	for i, r := range exp {
		if len(r) == 1 && r[0] == "REJECT" {
			wantErr = true
			continue
		}
		want = append(want, Tup(map[string]*AV{"at": Num(float64(i)), "it": Num(float64(markers["/"+strings.Join(r, "/")]))}))
	}
	switch {
	case wantErr && o.Kind() == "value":
		fail("unexpected-value", "no-root-above", "a rooted import with no sentinel above the importer evaluated to "+o.String())
	case !wantErr:
		if d := compare(SetOf(want...), o); !d.ok {
			fail(d.symptom, "wrong-root", fmt.Sprintf("expected x of roots %v -> %s; got %s; opened %q", exp, SetOf(want...).RenderSugar(), o.String(), fs.Opens))
		}
	}
	return obs
}
