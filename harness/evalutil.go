package main

// Evaluating arr.ai source and compiled templates against the real code.

import (
	"context"
	"fmt"
	"hash/fnv"
	"sync"

	"github.com/arr-ai/arrai/pkg/arraictx"
	"github.com/arr-ai/arrai/pkg/fu"
	"github.com/arr-ai/arrai/rel"
	"github.com/arr-ai/arrai/syntax"
)

var evalCtx = arraictx.InitRunCtx(context.Background())

type compiled struct {
	expr  rel.Expr
	err   error
	panic string
	frame string
}

var (
	tmplMu    sync.Mutex
	tmplCache = map[string]*compiled{}
)

func compileCached(src string) *compiled {
	tmplMu.Lock()
	c, ok := tmplCache[src]
	tmplMu.Unlock()
	if ok {
		return c
	}
	c = &compiled{}
	msg, frame, p := catch(func() { c.expr, c.err = syntax.Compile(evalCtx, "", src) })
	if p {
		c.panic, c.frame = msg, frame
	}
	tmplMu.Lock()
	if len(tmplCache) > 200000 {
		tmplCache = map[string]*compiled{}
	}
	tmplCache[src] = c
	tmplMu.Unlock()
	return c
}

// Outcome of evaluating something against the real code.
type Outcome struct {
	V     rel.Value
	Err   error
	Panic string
	Frame string
}

func (o Outcome) Kind() string {
	switch {
	case o.Panic != "":
		return "panic"
	case o.Err != nil:
		return "error"
	}
	return "value"
}

func (o Outcome) String() string {
	switch o.Kind() {
	case "panic":
		return "PANIC " + trunc(o.Panic, 200) + " @" + o.Frame
	case "error":
		return "ERROR " + trunc(o.Err.Error(), 300)
	}
	return reprSafe(o.V)
}

func reprSafe(v rel.Value) (s string) {
	defer func() {
		if e := recover(); e != nil {
			s = fmt.Sprintf("<repr panicked: %v>", e)
		}
	}()
	if v == nil {
		return "<nil>"
	}
	return trunc(fu.Repr(v), 600)
}

// evalTemplate evaluates compiled source with the given variables in scope.
func evalTemplate(src string, vars map[string]rel.Value) (o Outcome) {
	c := compileCached(src)
	if c.panic != "" {
		return Outcome{Panic: "compile: " + c.panic, Frame: c.frame}
	}
	if c.err != nil {
		return Outcome{Err: fmt.Errorf("compile: %w", c.err)}
	}
	sc := rel.EmptyScope
	for k, v := range vars {
		sc = sc.With(k, v)
	}
	msg, frame, p := catch(func() { o.V, o.Err = c.expr.Eval(evalCtx, sc) })
	if p {
		return Outcome{Panic: msg, Frame: frame}
	}
	return o
}

// evalSource parses, compiles and evaluates a whole program (no caching of the result).
func evalSource(src string) (o Outcome) {
	msg, frame, p := catch(func() { o.V, o.Err = syntax.EvaluateExpr(evalCtx, "", src) })
	if p {
		return Outcome{Panic: msg, Frame: frame}
	}
	return o
}

var (
	litMu    sync.Mutex
	litCache = map[string]Outcome{}
)

// evalLiteral evaluates source that denotes a constant; results are cached per worker.
func evalLiteral(src string) Outcome {
	litMu.Lock()
	o, ok := litCache[src]
	litMu.Unlock()
	if ok {
		return o
	}
	o = evalSource(src)
	litMu.Lock()
	if len(litCache) > 100000 {
		litCache = map[string]Outcome{}
	}
	litCache[src] = o
	litMu.Unlock()
	return o
}

func hashOf(parts ...interface{}) uint64 {
	h := fnv.New64a()
	fmt.Fprint(h, parts...)
	return h.Sum64()
}
