package main

import (
	"fmt"
	"strings"
	"time"
)

// checkImportCacheModel model-checks the ImportCache spec (all import graphs on three files, all sets of
// failing files, all root assignments) in the configurations that correspond to the code as it is now,
// and requires TLC to REJECT the named deviations (negative controls).
func checkImportCacheModel(rep *Report) {
	type cfg struct {
		name   string
		expect string // "" = must hold; otherwise the property TLC must report as violated
		what   string
	}
	for _, c := range []cfg{
		{"ImportCache_one.cfg", "", "one goroutine per cache, own-stack cycle check: every compile ends; error exactly when a cycle or a failing file is reachable"},
		{"ImportCache_two.cfg", "", "two goroutines sharing a cache, acyclic graphs, broadcast on abandon: single-flight, right outcomes, termination"},
		{"ImportCache_asis.cfg", "Terminates", "negative control: without the own-stack check an import cycle waits on its own in-flight marker forever"},
		{"ImportCache_two_nobroadcast.cfg", "Terminates", "negative control: deleting the in-flight marker without cond.Broadcast() strands the waiters"},
		{"ImportCache_two_cyclic.cfg", "Terminates", "design-level finding (recorded in DESIGN.md): two goroutines sharing one cache can still deadlock on a cyclic graph; every entry point of arr.ai uses a fresh cache per evaluation"},
	} {
		st := runTLCPlain(&TLCRun{Module: "ImportCache", Cfg: c.name, Timeout: 30 * time.Minute})
		errs := strings.Join(st.Errors, "\n")
		if c.expect == "" {
			st.RequireClean("ImportCache " + c.name)
			rep.TLC = append(rep.TLC, st)
			fmt.Printf("  tlc ImportCache %s: %d distinct states, holds (%s)\n", c.name, st.Distinct, c.what)
		} else {
			if !strings.Contains(errs, c.expect) {
				infraFail("ImportCache %s: TLC was expected to report %s violated (%s)\n%s", c.name, c.expect, c.what, strings.Join(st.Tail, "\n"))
			}
			fmt.Printf("  tlc ImportCache %s: %s violated as expected (%s)\n", c.name, c.expect, c.what)
		}
	}
}
