package main

// Running TLC and streaming the case lines it prints.

import (
	"bufio"
	"fmt"
	"io"
	"os"
	"os/exec"
	"path/filepath"
	"regexp"
	"strconv"
	"strings"
	"sync"
	"syscall"
	"time"
)

var verifRoot = func() string {
	if r := os.Getenv("VERIF_ROOT"); r != "" {
		return r
	}
	return "/verif"
}()

type TLCRun struct {
	Module   string   // module file name without .tla (under specs/)
	Cfg      string   // cfg file name (under specs/), default Module.cfg
	Workers  int      // default 8
	Simulate string   // e.g. "num=1000" -> -simulate num=1000
	Depth    int      // -depth for simulation
	Seed     int64    // -seed
	Extra    []string // extra TLC args
	Timeout  time.Duration
	Coverage bool
	Heap     string // e.g. "8g"
	Env      []string
	// ExtraFiles are copied into the scratch directory (path -> name), e.g. recorded traces.
	ExtraFiles map[string]string
}

type TLCStats struct {
	Generated   int64
	Distinct    int64
	Depth       int64
	Lines       int64 // case lines emitted
	ExitCode    int
	Errors      []string // lines after "Error:"
	Tail        []string
	Wall        time.Duration
	Cmd         string
	ZeroCover   []string // actions with zero coverage (when Coverage)
	PostOK      bool
	TimedOut    bool
	Diameter    int64
	PrintedVals []string // non-case PrintT lines (first few)
}

var (
	reStates    = regexp.MustCompile(`^(\d+) states generated, (\d+) distinct states found`)
	reDepth     = regexp.MustCompile(`^The depth of the complete state graph search is (\d+)`)
	reCovZero   = regexp.MustCompile(`^<(\w+) line .*>: 0:0`)
	reSimStats  = regexp.MustCompile(`^The number of states generated: (\d+)`)
	reSimTraces = regexp.MustCompile(`(\d+) traces generated`)
	reRejected  = regexp.MustCompile(`TRACE-REJECTED at line", (\d+)`)
	reTraceLine = regexp.MustCompile(`^/\\ l = (\d+)`)
)

var scratchSeq int
var scratchMu sync.Mutex

func newScratch(tag string) string {
	scratchMu.Lock()
	scratchSeq++
	n := scratchSeq
	scratchMu.Unlock()
	dir := filepath.Join(verifRoot, ".work", fmt.Sprintf("%s-%d-%d", tag, os.Getpid(), n))
	must(os.MkdirAll(dir, 0o755))
	return dir
}

func must(err error) {
	if err != nil {
		infraFail("%v", err)
	}
}

// infraFail: exit 2, never a violation.
func infraFail(format string, args ...interface{}) {
	fmt.Fprintf(os.Stderr, "INFRA-FAILURE: "+format+"\n", args...)
	fmt.Printf("INFRA-FAILURE: "+format+"\n", args...)
	cleanupScratch()
	os.Exit(2)
}

func cleanupScratch() {
	matches, _ := filepath.Glob(filepath.Join(verifRoot, ".work", fmt.Sprintf("*-%d-*", os.Getpid())))
	for _, m := range matches {
		os.RemoveAll(m)
	}
}

func copyFile(src, dst string) error {
	in, err := os.Open(src)
	if err != nil {
		return err
	}
	defer in.Close()
	out, err := os.Create(dst)
	if err != nil {
		return err
	}
	defer out.Close()
	_, err = io.Copy(out, in)
	return err
}

// Start launches TLC. Case lines (those TLC prints as a quoted JSON object) are delivered
// unquoted on the returned channel; wait() returns after TLC has exited.
func (r *TLCRun) Start() (<-chan []byte, func() *TLCStats) {
	dir := newScratch("tlc-" + r.Module)
	specs, _ := filepath.Glob(filepath.Join(verifRoot, "specs", "*.tla"))
	for _, s := range specs {
		must(copyFile(s, filepath.Join(dir, filepath.Base(s))))
	}
	cfg := r.Cfg
	if cfg == "" {
		cfg = r.Module + ".cfg"
	}
	must(copyFile(filepath.Join(verifRoot, "specs", cfg), filepath.Join(dir, cfg)))
	for src, name := range r.ExtraFiles {
		must(copyFile(src, filepath.Join(dir, name)))
	}
	workers := r.Workers
	if workers == 0 {
		workers = 8
	}
	heap := r.Heap
	if heap == "" {
		heap = "6g"
	}
	args := []string{"-XX:+UseParallelGC", "-Xmx" + heap, "-Xss64m",
		"-cp", "/opt/veriftools/tla/tla2tools.jar:/opt/veriftools/tla/CommunityModules-deps.jar", "tlc2.TLC",
		"-workers", strconv.Itoa(workers), "-metadir", filepath.Join(dir, "meta"), "-config", cfg, "-noGenerateSpecTE"}
	if r.Simulate != "" {
		args = append(args, "-simulate", r.Simulate)
		if r.Depth > 0 {
			args = append(args, "-depth", strconv.Itoa(r.Depth))
		}
	}
	if r.Seed != 0 || r.Simulate != "" {
		args = append(args, "-seed", strconv.FormatInt(r.Seed, 10))
	}
	if r.Coverage {
		args = append(args, "-coverage", "1")
	}
	args = append(args, r.Extra...)
	args = append(args, r.Module+".tla")
	cmd := exec.Command("java", args...)
	cmd.Dir = dir
	cmd.Env = append(os.Environ(), r.Env...)
	cmd.SysProcAttr = &syscall.SysProcAttr{Setpgid: true}
	stdout, err := cmd.StdoutPipe()
	must(err)
	cmd.Stderr = cmd.Stdout
	start := time.Now()
	must(cmd.Start())
	timeout := r.Timeout
	if timeout == 0 {
		timeout = 30 * time.Minute
	}
	st := &TLCStats{Cmd: "tlc " + strings.Join(args[6:], " ")}
	timer := time.AfterFunc(timeout, func() {
		st.TimedOut = true
		syscall.Kill(-cmd.Process.Pid, syscall.SIGKILL)
	})
	lines := make(chan []byte, 4096)
	done := make(chan struct{})
	go func() {
		defer close(done)
		defer close(lines)
		sc := bufio.NewScanner(stdout)
		sc.Buffer(make([]byte, 1<<20), 1<<28)
		inErr := 0
		for sc.Scan() {
			line := sc.Text()
			if strings.HasPrefix(line, `"{`) {
				s, err := strconv.Unquote(line)
				if err != nil {
					// TLC escapes only \" and \\; fall back to a manual unescape.
					s = strings.NewReplacer(`\"`, `"`, `\\`, `\`).Replace(line[1 : len(line)-1])
				}
				st.Lines++
				lines <- []byte(s)
				continue
			}
			if m := reStates.FindStringSubmatch(line); m != nil {
				st.Generated, _ = strconv.ParseInt(m[1], 10, 64)
				st.Distinct, _ = strconv.ParseInt(m[2], 10, 64)
			}
			if m := reSimStats.FindStringSubmatch(line); m != nil {
				st.Generated, _ = strconv.ParseInt(m[1], 10, 64)
				st.Distinct = st.Generated // simulation does not deduplicate; distinct programs are counted by the harness
			}
			if m := reDepth.FindStringSubmatch(line); m != nil {
				st.Depth, _ = strconv.ParseInt(m[1], 10, 64)
			}
			if r.Coverage {
				if m := reCovZero.FindStringSubmatch(line); m != nil {
					st.ZeroCover = append(st.ZeroCover, m[1])
				}
			}
			if m := reRejected.FindStringSubmatch(line); m != nil {
				st.Diameter, _ = strconv.ParseInt(m[1], 10, 64)
				st.Errors = append(st.Errors, trunc(line, 400))
			} else if m := reTraceLine.FindStringSubmatch(line); m != nil && !strings.Contains(strings.Join(st.Errors, ""), "TRACE-REJECTED") {
				st.Diameter, _ = strconv.ParseInt(m[1], 10, 64) // last value of the trace position in a counterexample
			}
			if strings.HasPrefix(line, "Error:") || strings.Contains(line, "is violated") || strings.HasPrefix(line, "Deadlock reached") {
				inErr = 12
			}
			if inErr > 0 {
				inErr--
				if len(st.Errors) < 60 {
					st.Errors = append(st.Errors, line)
				}
			}
			if strings.HasPrefix(line, `"`) && len(st.PrintedVals) < 50 {
				st.PrintedVals = append(st.PrintedVals, line)
			}
			st.Tail = append(st.Tail, line)
			if len(st.Tail) > 40 {
				st.Tail = st.Tail[1:]
			}
		}
	}()
	wait := func() *TLCStats {
		<-done
		err := cmd.Wait()
		timer.Stop()
		st.Wall = time.Since(start)
		if err != nil {
			if ee, ok := err.(*exec.ExitError); ok {
				st.ExitCode = ee.ExitCode()
			} else {
				st.ExitCode = -1
			}
		}
		os.RemoveAll(dir)
		return st
	}
	return lines, wait
}

// RequireClean aborts with an infrastructure failure unless TLC finished without reporting an
// error of its own (parse error, violated sanity law, deadlock, timeout).
func (st *TLCStats) RequireClean(what string) {
	if st.TimedOut {
		infraFail("%s: TLC timed out (%s)", what, st.Cmd)
	}
	if st.ExitCode != 0 || len(st.Errors) > 0 {
		infraFail("%s: TLC exit %d\n%s\n--- tail ---\n%s", what, st.ExitCode, strings.Join(st.Errors, "\n"), strings.Join(st.Tail, "\n"))
	}
}
