package main

// Replay of SetAlgebra cases (C01, C02, C03, C12) against the real code.

import (
	"encoding/json"
	"fmt"
	"os"
	"sort"
	"strconv"
	"strings"

	"github.com/arr-ai/arrai/pkg/fu"
	"github.com/arr-ai/arrai/rel"
)

var verifSeed = func() int64 {
	n, _ := strconv.ParseInt(os.Getenv("VERIF_SEED"), 10, 64)
	return n
}()
var verifTier = func() string {
	if t := os.Getenv("VERIF_TIER"); t != "" {
		return t
	}
	return "quick"
}()

type saStep struct {
	K   string          `json:"k"`
	Op  string          `json:"op"`
	I   int             `json:"i"`
	J   int             `json:"j"`
	E   json.RawMessage `json:"e"`
	Neg bool            `json:"neg"`
}

type saCase struct {
	Spec string            `json:"spec"`
	Prog []saStep          `json:"prog"`
	Env  []json.RawMessage `json:"env"`
}

type pairRes struct {
	U, I, D, X                          json.RawMessage
	Sub, Sube, Sup, Supe, Cmp, Cmpe, Eq json.RawMessage
	Cnt, Pow                            json.RawMessage
	El                                  []struct{ E, W, Wo, M json.RawMessage }
	Whin, Whout, Wrap, Attr, Coll       json.RawMessage
}

func init() {
	// C02, Nesting spec: pairs of values that differ only in how their members are nested
	handlers["setalg-nest"] = func(raw json.RawMessage) *Obs {
		var cs struct {
			A json.RawMessage `json:"a"`
			B json.RawMessage `json:"b"`
		}
		if err := json.Unmarshal(raw, &cs); err != nil {
			return &Obs{Fails: []Fail{{Sig: Signature{Symptom: "bad-case"}, Detail: err.Error()}}}
		}
		a, b := MustParseAV(cs.A), MustParseAV(cs.B)
		c := &saCtx{mode: "c02", obs: &Obs{Key: a.Canon() + "|" + b.Canon(), NonTrivial: 1}}
		c.obs.Sample = fmt.Sprintf("a = %s ; b = %s (nesting near-miss)", a.RenderSugar(), b.RenderSugar())
		ras, rbs := c.realiseAll(a), c.realiseAll(b)
		if len(ras) > 0 && len(rbs) > 0 {
			c.equalityObservations(a, b, pairRes{}, ras, rbs)
		}
		return c.obs
	}
	for _, m := range []string{"c01", "c02", "c03", "c12"} {
		mode := m
		handlers["setalg-"+mode] = func(c json.RawMessage) *Obs { return handleSetAlg(mode, c) }
	}
}

// realise constructs the abstract value a in the real code by the given recipe.
func realise(a *AV, recipe string) (o Outcome, src string, ok bool) {
	if recipe == "apicap" {
		// a contiguous string / byte array / array built over a slice with spare capacity, the way
		// values produced by append-based code paths look
		kind, off, items, isSeq := a.seqView()
		if !isSeq {
			return o, "", false
		}
		for _, it := range items {
			if it == nil {
				return o, "", false
			}
		}
		msg, frame, p := catch(func() {
			switch kind {
			case "ch":
				rs := make([]rune, len(items), len(items)+4)
				for i, it := range items {
					rs[i] = rune(it.N)
				}
				o.V = rel.NewOffsetString(rs, off)
			case "by":
				bs := make([]byte, len(items), len(items)+4)
				for i, it := range items {
					bs[i] = byte(it.N)
				}
				o.V = rel.NewOffsetBytes(bs, off)
			case "it":
				vs := make([]rel.Value, len(items), len(items)+4)
				for i, it := range items {
					vs[i] = it.Build()
				}
				o.V = rel.NewOffsetArray(off, vs...)
			}
		})
		if p {
			o = Outcome{Panic: msg, Frame: frame}
		}
		return o, "rel.NewOffset{String,Bytes,Array} over a slice with spare capacity (" + a.RenderSugar() + ")", true
	}
	if recipe == "api" {
		msg, frame, p := catch(func() { o.V = a.Build() })
		if p {
			o = Outcome{Panic: msg, Frame: frame}
		}
		return o, "rel.NewSet/NewTuple(" + a.Render() + ")", true
	}
	src = a.RenderRecipe(recipe)
	if src == "" {
		return o, "", false
	}
	return evalLiteral(src), src, true
}

var allRecipes = append(append([]string{}, recipeNames...), "api")

type diffInfo struct {
	ok      bool
	symptom string
	msg     string
	frame   string
	detail  string
}

func diffClass(exp, got *AV) string {
	if exp.K != 's' || got.K != 's' {
		if exp.K != got.K {
			return "kind"
		}
		return "value"
	}
	missing, extra := 0, 0
	for _, e := range exp.S {
		if !got.Has(e) {
			missing++
		}
	}
	for _, g := range got.S {
		if !exp.Has(g) {
			extra++
		}
	}
	switch {
	case missing > 0 && extra > 0:
		return "missing+extra"
	case missing > 0:
		return "missing"
	case extra > 0:
		return "extra"
	}
	return "same-members"
}

// compare checks an outcome against the spec's expected value (ErrAV = "must be an error").
func compare(exp *AV, o Outcome) diffInfo {
	switch o.Kind() {
	case "panic":
		return diffInfo{symptom: "panic", msg: classifyMsg(o.Panic), frame: o.Frame, detail: "panic: " + trunc(o.Panic, 300) + " at " + o.Frame}
	case "error":
		if exp.K == 'e' {
			return diffInfo{ok: true}
		}
		return diffInfo{symptom: "unexpected-error", msg: classifyErr(o.Err.Error()), detail: "error: " + trunc(o.Err.Error(), 300) + "\nexpected " + trunc(exp.Canon(), 600)}
	}
	if exp.K == 'e' {
		return diffInfo{symptom: "unexpected-value", detail: "expected an error, got " + reprSafe(o.V)}
	}
	var got *AV
	var anoms []Anomaly
	msg, frame, p := catch(func() { got, anoms = Denote(o.V) })
	if p {
		return diffInfo{symptom: "panic", msg: classifyMsg(msg), frame: frame, detail: "panic while enumerating the result: " + trunc(msg, 300) + " at " + frame}
	}
	if !got.Equal(exp) {
		return diffInfo{symptom: "mismatch", msg: diffClass(exp, got),
			detail: fmt.Sprintf("expected %s\ngot      %s\n(%T prints as %s)", trunc(exp.Canon(), 700), trunc(got.Canon(), 700), o.V, reprSafe(o.V))}
	}
	// equal values are interchangeable (C02): a result with the right members must also be = to the
	// same value built directly, in both directions (a non-canonical representation fails here)
	if sh := exp.Shape(); !sh.Superimposed && !sh.ByteGaps {
		var canon rel.Value
		if _, _, p := catch(func() { canon = exp.Build() }); !p && canon != nil {
			var eq1, eq2 bool
			if _, _, p := catch(func() { eq1, eq2 = o.V.Equal(canon), canon.Equal(o.V) }); !p && !(eq1 && eq2) {
				if ca, _ := Denote(canon); ca.Equal(exp) {
					return diffInfo{symptom: "mismatch", msg: "not-equal-to-canonical",
						detail: fmt.Sprintf("the result has the right members but is not = to the same value built directly (result.Equal(direct)=%v, direct.Equal(result)=%v): result is %T %s, direct is %T %s",
							eq1, eq2, o.V, reprSafe(o.V), canon, reprSafe(canon))}
				}
			}
		}
	}
	if len(anoms) > 0 {
		return diffInfo{symptom: "anomaly", msg: anoms[0].Kind, detail: fmt.Sprintf("members are right but %s (%T prints as %s)", anoms[0].Msg, o.V, reprSafe(o.V))}
	}
	return diffInfo{ok: true}
}

// classifyErr reduces an error message to a class that does not contain the offending values.
func classifyErr(m string) string {
	if i := strings.IndexByte(m, '\n'); i >= 0 {
		m = m[:i]
	}
	parts := strings.SplitN(m, ":", 3)
	if len(parts) >= 2 && strings.HasPrefix(parts[0], "//") {
		m = parts[0] + ":" + parts[1]
	} else {
		m = parts[0]
	}
	var b strings.Builder
	for _, r := range m {
		if r >= '0' && r <= '9' {
			continue
		}
		b.WriteRune(r)
	}
	m = b.String()
	if len(m) > 48 {
		m = m[:48]
	}
	return m
}

func mergeFlags(avs ...*AV) []string {
	set := map[string]bool{}
	for _, a := range avs {
		if a == nil {
			continue
		}
		for _, f := range a.Shape().Flags() {
			set[f] = true
		}
	}
	out := []string{}
	for f := range set {
		out = append(out, f)
	}
	sort.Strings(out)
	return out
}

func elemShape(e *AV) string {
	if k := seqKind(e); k != "" {
		return "elem:" + k
	}
	return "elem:" + e.Shape().Class
}

type saCtx struct {
	mode string
	obs  *Obs
}

func (c *saCtx) fail(op string, l, r, exp *AV, shapeR string, d diffInfo, src string) {
	sig := Signature{Op: op, Symptom: d.symptom, Frame: d.frame, Msg: d.msg}
	if l != nil {
		sig.ShapeL = l.Shape().Class
	}
	if shapeR != "" {
		sig.ShapeR = shapeR
	} else if r != nil {
		sig.ShapeR = r.Shape().Class
	}
	if shapeR == "-" {
		r = nil
	}
	sig.Flags = mergeFlags(l, r, exp)
	c.obs.Fails = append(c.obs.Fails, Fail{Sig: sig, Detail: src + "\n" + d.detail, Source: src})
}

var negOf = map[string]string{"sub": "(<)", "sube": "(<=)", "sup": "(>)", "supe": "(>=)", "cmp": "(<>)", "cmpe": "(<>=)"}

func notAV(a *AV) *AV { return BoolAV(!a.Equal(TrueAV)) }

func handleSetAlg(mode string, raw json.RawMessage) *Obs {
	var c saCase
	if err := json.Unmarshal(raw, &c); err != nil {
		return &Obs{Fails: []Fail{{Sig: Signature{Symptom: "bad-case"}, Detail: err.Error()}}}
	}
	ctx := &saCtx{mode: mode, obs: &Obs{}}
	last := c.Prog[len(c.Prog)-1]
	if last.K == "allops" {
		ctx.pairCase(&c)
	} else {
		ctx.chainCase(&c)
	}
	return ctx.obs
}

// applicable recipes of a value with their realised outcomes; literal-level failures are
// reported once per (value, recipe) and such recipes are left out of operator checks.
type realised struct {
	recipe string
	src    string
	v      rel.Value
}

type realCache struct {
	out   []realised
	fails []Fail
	evals int
}

var realisedCache = map[string]*realCache{}

func (c *saCtx) realiseAll(a *AV) []realised {
	if rc, ok := realisedCache[a.Canon()]; ok {
		return rc.out
	}
	rc := &realCache{}
	sub := &saCtx{mode: c.mode, obs: &Obs{}}
	for _, r := range allRecipes {
		o, src, ok := realise(a, r)
		if !ok {
			continue
		}
		rc.evals++
		d := compare(a, o)
		if !d.ok {
			sub.fail("lit:"+r, a, nil, a, "", d, src)
			continue
		}
		rc.out = append(rc.out, realised{r, src, o.V})
	}
	if len(realisedCache) > 50000 {
		realisedCache = map[string]*realCache{}
	}
	realisedCache[a.Canon()] = rc
	// literal-level failures are reported once per worker and value
	c.obs.Evals += rc.evals
	if c.mode == "c01" || c.mode == "c02" {
		c.obs.Fails = append(c.obs.Fails, sub.obs.Fails...)
	}
	return rc.out
}

func (c *saCtx) pairCase(cs *saCase) {
	a := MustParseAV(cs.Env[0])
	b := MustParseAV(cs.Env[1])
	var r pairRes
	if err := json.Unmarshal(cs.Env[2], &r); err != nil {
		panic(err)
	}
	c.obs.Key = a.Canon() + "|" + b.Canon()
	if len(a.S) > 0 && len(b.S) > 0 && !a.Equal(b) {
		c.obs.NonTrivial = 1
	}
	c.obs.Sample = fmt.Sprintf("a = %s ; b = %s ; a|b, a&b, a&~b, a~~b, subset tests, count, ^a, with/without/<: per member of b, where, =>", a.RenderSugar(), b.RenderSugar())
	ras := c.realiseAll(a)
	rbs := c.realiseAll(b)
	if len(ras) == 0 || len(rbs) == 0 {
		return
	}
	// choose recipe pairs
	type pr struct{ x, y realised }
	var pairs []pr
	for _, x := range ras {
		for _, y := range rbs {
			pairs = append(pairs, pr{x, y})
		}
	}
	limit := 6
	if verifTier == "thorough" {
		limit = 12
	}
	if c.mode == "c02" {
		limit = 1 << 30
	}
	if len(pairs) > limit {
		h := hashOf(verifSeed, c.obs.Key)
		sel := make([]pr, 0, limit)
		step := len(pairs)/limit + 1
		// co-prime stride through the pair list, starting point from the seed
		for i, idx := 0, int(h%uint64(len(pairs))); i < limit; i, idx = i+1, (idx+step)%len(pairs) {
			sel = append(sel, pairs[idx])
		}
		pairs = sel
	}
	if c.mode == "c02" {
		c.equalityObservations(a, b, r, ras, rbs)
		return
	}
	exp := func(m json.RawMessage) *AV { return MustParseAV(m) }
	for _, p := range pairs {
		vars := map[string]rel.Value{"a": p.x.v, "b": p.y.v}
		tag := fmt.Sprintf("let a = %s; let b = %s; ", p.x.src, p.y.src)
		check := func(op, src string, e *AV, shapeR string) {
			c.obs.Evals++
			o := evalTemplate(src, vars)
			if d := compare(e, o); !d.ok {
				c.fail(op, a, b, e, shapeR, d, tag+src)
			} else if e.K == 's' && o.V != nil {
				// members of the operands that the spec says are NOT in the result must not be "had"
				if s, ok := o.V.(rel.Set); ok {
					for _, m := range append(append([]*AV{}, a.S...), b.S...) {
						if !e.Has(m) {
							var has bool
							if _, _, pn := catch(func() { has = s.Has(m.Build()) }); !pn && has {
								c.fail(op, a, b, e, shapeR, diffInfo{symptom: "anomaly", msg: "has",
									detail: "Has() is true for a non-member: " + m.Render()}, tag+src)
								break
							}
						}
					}
				}
			}
		}
		check("|", "a | b", exp(r.U), "")
		check("&", "a & b", exp(r.I), "")
		check("&~", "a &~ b", exp(r.D), "")
		check("~~", "a ~~ b", exp(r.X), "")
		for k, m := range map[string]json.RawMessage{"sub": r.Sub, "sube": r.Sube, "sup": r.Sup, "supe": r.Supe, "cmp": r.Cmp, "cmpe": r.Cmpe} {
			check(negOf[k], "a "+negOf[k]+" b", exp(m), "")
			check("!"+negOf[k], "a !"+negOf[k]+" b", notAV(exp(m)), "")
		}
		check("=", "a = b", exp(r.Eq), "")
		check("!=", "a != b", notAV(exp(r.Eq)), "")
		check("count", "a count", exp(r.Cnt), "-")
		if pw := exp(r.Pow); pw.K != 'e' {
			check("^", "^a", pw, "-")
		}
		check("where", `a where \x x <: b`, exp(r.Whin), "")
		check("where", `a where \x x !<: b`, exp(r.Whout), "")
		check("=>", `a => \x {x}`, exp(r.Wrap), "-")
		check("=>", `a => \x (v: x)`, exp(r.Attr), "-")
		check("=>", `a => \x cond {x <: b: 1, _: x}`, exp(r.Coll), "")
		for _, el := range r.El {
			e := exp(el.E)
			var ev rel.Value
			if _, _, pn := catch(func() { ev = e.Build() }); pn {
				continue
			}
			vars["e"] = ev
			etag := "let e = " + e.Render() + "; "
			sr := elemShape(e)
			tag0 := tag
			tag = tag + etag
			check("with", "a with e", exp(el.W), sr)
			check("without", "a without e", exp(el.Wo), sr)
			check("<:", "e <: a", exp(el.M), sr)
			check("!<:", "e !<: a", notAV(exp(el.M)), sr)
			tag = tag0
		}
	}
}

// equalityObservations: every observation point of C02 for the pair (a, b) in every pair of recipes.
func (c *saCtx) equalityObservations(a, b *AV, r pairRes, ras, rbs []realised) {
	eq := a.Equal(b)
	for _, x := range ras {
		for _, y := range rbs {
			vars := map[string]rel.Value{"a": x.v, "b": y.v}
			tag := fmt.Sprintf("let a = %s; let b = %s; ", x.src, y.src)
			check := func(op, src string, e *AV) {
				c.obs.Evals++
				o := evalTemplate(src, vars)
				if d := compare(e, o); !d.ok {
					c.fail(op, a, b, e, "", d, tag+src)
				}
			}
			check("=", "a = b", BoolAV(eq))
			check("!=", "a != b", BoolAV(!eq))
			n := 2.0
			if eq {
				n = 1
			}
			check("{a,b} count", "{a, b} count", Num(n))
			check("{a} with b count", "({a} with b) count", Num(n))
			check("<: {b}", "a <: {b}", BoolAV(eq))
			if eq {
				check("{a:1}(b)", "{a: 1}(b)", Num(1))
			} else {
				check("{a:1}(b)", "{a: 1}(b)", ErrAV)
			}
			check("{a:1,b:2} count", "{(@: a, @value: 1), (@: b, @value: 1)} count", Num(n))
			check("repr", "(//str.repr(a) = //str.repr(b))", BoolAV(eq))
			check("(a:a)=(a:b)", "(k: a) = (k: b)", BoolAV(eq))
			check("{a} = {b}", "{a} = {b}", BoolAV(eq))
			check("{a} & {b}", "({a} & {b}) count", Num(2-n))
		}
	}
}

// ------------------------------------------------------------------------------------------------
// chains

func (c *saCtx) chainCase(cs *saCase) {
	n := len(cs.Prog)
	exp := make([]*AV, n)
	for i := range exp {
		exp[i] = MustParseAV(cs.Env[i])
	}
	vals := make([]rel.Value, n)
	srcs := make([]string, n)
	c.obs.Key = string(mustJSON(cs.Prog)) + exp[0].Canon()
	if n > 1 {
		c.obs.Key += exp[1].Canon()
	}
	c.obs.NonTrivial = 1
	binAPI := map[string]func(a, b rel.Set) rel.Set{"|": rel.Union, "&": rel.Intersect, "&~": rel.Difference, "~~": rel.SymmetricDifference}
	useAPI := c.mode == "c03" && hashOf(verifSeed, c.obs.Key)%2 == 0
	var lines []string
	for i, st := range cs.Prog {
		var o Outcome
		var src string
		opname := st.K
		var l, r *AV
		switch st.K {
		case "lit":
			rs := []string{}
			for _, rc := range allRecipes {
				if rc == "api" || exp[i].RenderRecipe(rc) != "" {
					rs = append(rs, rc)
				}
			}
			rc := rs[hashOf(verifSeed, i, exp[i].Canon())%uint64(len(rs))]
			if c.mode == "c03" && useAPI {
				if _, _, ok := realise(exp[i], "apicap"); ok {
					rc = "apicap"
				}
			}
			o, src, _ = realise(exp[i], rc)
			opname = "lit:" + rc
			l = exp[i]
		case "bin":
			l, r = exp[st.I-1], exp[st.J-1]
			src = fmt.Sprintf("v%d %s v%d", st.I, st.Op, st.J)
			opname = st.Op
			if useAPI {
				msg, frame, p := catch(func() { o.V = binAPI[st.Op](vals[st.I-1].(rel.Set), vals[st.J-1].(rel.Set)) })
				if p {
					o = Outcome{Panic: msg, Frame: frame}
				}
			} else {
				o = evalTemplate("a "+st.Op+" b", map[string]rel.Value{"a": vals[st.I-1], "b": vals[st.J-1]})
			}
		case "with", "without":
			l = exp[st.I-1]
			e := MustParseAV(st.E)
			r = e
			src = fmt.Sprintf("v%d %s %s", st.I, st.K, e.Render())
			if useAPI {
				msg, frame, p := catch(func() {
					if st.K == "with" {
						o.V = vals[st.I-1].(rel.Set).With(e.Build())
					} else {
						o.V = vals[st.I-1].(rel.Set).Without(e.Build())
					}
				})
				if p {
					o = Outcome{Panic: msg, Frame: frame}
				}
			} else {
				var ev rel.Value
				catch(func() { ev = e.Build() })
				o = evalTemplate("a "+st.K+" e", map[string]rel.Value{"a": vals[st.I-1], "e": ev})
			}
		case "where":
			l, r = exp[st.I-1], exp[st.J-1]
			t := `a where \x x <: b`
			if st.Neg {
				t = `a where \x x !<: b`
			}
			src = strings.NewReplacer("a ", fmt.Sprintf("v%d ", st.I), " b", fmt.Sprintf(" v%d", st.J)).Replace(t)
			o = evalTemplate(t, map[string]rel.Value{"a": vals[st.I-1], "b": vals[st.J-1]})
		case "coll":
			l, r = exp[st.I-1], exp[st.J-1]
			src = fmt.Sprintf(`v%d => \x cond {x <: v%d: 1, _: x}`, st.I, st.J)
			o = evalTemplate(`a => \x cond {x <: b: 1, _: x}`, map[string]rel.Value{"a": vals[st.I-1], "b": vals[st.J-1]})
		case "reprint":
			l = exp[st.I-1]
			var text string
			msg, frame, p := catch(func() { text = fu.Repr(vals[st.I-1]) })
			if p {
				o = Outcome{Panic: msg, Frame: frame}
			} else {
				o = evalSource(text)
			}
			src = fmt.Sprintf("reprint(v%d) = %s", st.I, trunc(text, 300))
		}
		srcs[i] = src
		lines = append(lines, fmt.Sprintf("let v%d = %s;", i+1, src))
		c.obs.Evals++
		d := compare(exp[i], o)
		if !d.ok {
			report := false
			switch c.mode {
			case "c01":
				report = st.K != "reprint"
			case "c12":
				report = st.K == "reprint"
			}
			if report {
				c.fail(opname, l, r, exp[i], "", d, strings.Join(lines, " "))
			}
			c.obs.Notes = append(c.obs.Notes, "chain cut at a failing step")
			break
		}
		vals[i] = o.V
		if c.mode == "c03" {
			// every earlier binding must still denote what it denoted when it was made
			for j := 0; j < i; j++ {
				c.obs.Evals++
				if dj := compare(exp[j], Outcome{V: vals[j]}); !dj.ok {
					dj.symptom = "mutated"
					c.fail(opname, exp[j], r, exp[j], "", dj, strings.Join(lines, " ")+fmt.Sprintf("  -- v%d changed after step %d", j+1, i+1))
				}
			}
		}
		if c.mode == "c02" {
			for j := 0; j <= i; j++ {
				eq := exp[i].Equal(exp[j])
				vars := map[string]rel.Value{"a": vals[i], "b": vals[j]}
				for _, t := range []struct {
					op, src string
					e       *AV
				}{{"=", "a = b", BoolAV(eq)}, {"=", "b = a", BoolAV(eq)}, {"{a,b} count", "{a, b} count", Num(map[bool]float64{true: 1, false: 2}[eq])},
					{"repr", "(//str.repr(a) = //str.repr(b))", BoolAV(eq)}, {"<: {b}", "a <: {b}", BoolAV(eq)}} {
					c.obs.Evals++
					if dd := compare(t.e, evalTemplate(t.src, vars)); !dd.ok {
						c.fail(t.op, exp[i], exp[j], exp[i], "", dd, strings.Join(lines, " ")+fmt.Sprintf(" let a = v%d; let b = v%d; %s", i+1, j+1, t.src))
					}
				}
			}
		}
	}
	c.obs.Sample = strings.Join(lines, " ")
}

func mustJSON(v interface{}) []byte {
	b, err := json.Marshal(v)
	if err != nil {
		panic(err)
	}
	return b
}
