package main

// C07: evaluation is deterministic across processes and hash seeds (EnumOrder spec).

import (
	"crypto/sha256"
	"encoding/hex"
	"encoding/json"
	"fmt"
	"sort"
	"strings"

	"github.com/arr-ai/arrai/pkg/fu"
	"github.com/arr-ai/hash"
)

type eoCase struct {
	Form   string `json:"form"`
	KProf  string `json:"kprof"`
	VProf  string `json:"vprof"`
	Exempt bool   `json:"exempt"`
	Src    string `json:"src,omitempty"` // replay / corpus programs given as text
}

const eoM = 12

func eoK(p string, i int) int {
	switch p {
	case "distinct":
		return i
	case "tied":
		return 1
	case "mod3":
		return i % 3
	}
	return i / 2
}

func eoV(p string, i int) string {
	switch p {
	case "ints":
		return fmt.Sprint(i)
	case "fracs":
		return fmt.Sprintf("%d.%d", i/10, i%10)
	}
	switch i {
	case 1:
		return "1e16"
	case 2:
		return "1"
	case 3:
		return "-1e16"
	}
	return fmt.Sprintf("%d.%d", i/10, i%10)
}

func (c *eoCase) set() string {
	var es []string
	for i := 1; i <= eoM; i++ {
		es = append(es, fmt.Sprintf("(k: %d, v: %s, id: %d)", eoK(c.KProf, i), eoV(c.VProf, i), i))
	}
	return "{" + strings.Join(es, ", ") + "}"
}

func (c *eoCase) source() string {
	if c.Src != "" {
		return c.Src
	}
	s := c.set()
	switch c.Form {
	case "print":
		return s
	case "mapset":
		return s + " => (x: .v, y: {.id, .k})"
	case "where":
		return s + " where .k != 1"
	case "orderby_k":
		return s + " orderby .k"
	case "orderby_total":
		return s + " orderby [.k, .v, .id]"
	case "order_k":
		return s + ` order \a \b a.k < b.k`
	case "first_k":
		return "(" + s + " orderby .k)(0)"
	case "rank_k":
		return s + " rank (r: .k)"
	case "sum":
		return s + " sum .v"
	case "mean":
		return s + " mean .v"
	case "min":
		return s + " min .v"
	case "max":
		return s + " max .v"
	case "median":
		return s + " median .v"
	case "setpat":
		return "let {x, ...} = " + s + "; x"
	case "single":
		return s + " single"
	case "nest_k":
		return s + " nest |v, id|g"
	case "join_sorted":
		return `//seq.join(",", ` + s + ` orderby [.k, .v, .id] >> $"${.id}")`
	case "tupleprint":
		var as []string
		for i := eoM; i >= 1; i-- {
			as = append(as, fmt.Sprintf("n%d: %s", (i*7)%eoM, eoV(c.VProf, i)))
		}
		return "(" + strings.Join(as, ", ") + ")"
	case "dictprint":
		return s + " => (@: .id, @value: .)"
	case "interp":
		return `$"<${` + s + ` => .v}>"`
	case "json":
		return `//encoding.json.encode(` + s + ` => (@: $"${.id}", @value: .k))`
	case "union_nested":
		return "//rel.union(" + s + " => {., (k: .k)})"
	case "count":
		return "(" + s + " => .k) count"
	case "arrow_array":
		return s + " orderby [.v, .id] >> .k"
	case "concat":
		return "//seq.concat(" + s + " orderby [.k, .id] >> [.id, .k])"
	case "mapped_sum":
		return "(" + s + " => (w: .v * 0.1, id: .id)) sum .w"
	case "group_mean":
		return s + " nest |v, id|g => (k: .k, m: .g mean .v, s: .g sum .v)"
	case "setpat_rest":
		return "let {2, 3, 4, 5, 6, 7, 8, 9, 10, 11, 12, x} = (" + s + " => .id); x"
	case "setpat_expr":
		return "let s = (" + s + " => .id) where . < 3; let {(1 + 1), x} = s; x"
	case "setpat_cond":
		return "cond (" + s + ` => .id) {{(0 + 1), 3, 4, 5, 6, 7, 8, 9, 10, 11, 12, x}: x, _: "no match"}`
	case "where_sum":
		return "(" + s + " where .id != 5) sum .v"
	}
	panic("unknown form " + c.Form)
}

func handleDeterminism(raw json.RawMessage) *Obs {
	var c eoCase
	if err := json.Unmarshal(raw, &c); err != nil {
		return &Obs{Fails: []Fail{{Sig: Signature{Symptom: "bad-case"}, Detail: err.Error()}}}
	}
	src := c.source()
	o := evalSource(src)
	var out string
	switch o.Kind() {
	case "value":
		var printed, repr string
		_, _, p1 := catch(func() { printed = o.V.String() })
		_, _, p2 := catch(func() { repr = fu.Repr(o.V) })
		if p1 || p2 {
			out = "PANIC-IN-PRINT"
		} else {
			out = "VALUE " + printed + "\nREPR " + repr
		}
	case "error":
		out = "ERROR" // messages may quote sets; only the fact is compared
	default:
		out = "PANIC " + classifyMsg(o.Panic)
	}
	a, h := hash.GetSeeds()
	sum := sha256.Sum256([]byte(fmt.Sprint(a, h)))
	return &Obs{Evals: 1, Data: []string{out, hex.EncodeToString(sum[:6])}, Sample: src}
}

func init() {
	handlers["determinism"] = handleDeterminism
	props["C07"] = func(rc *RunCtx) int {
		rep := NewReport("C07", rc.Tier, rc.Seed, "model_checking")
		n := tierPick(rc.Tier, 6, 24)
		rep.Rule = fmt.Sprintf("TLC checks on the EnumOrder spec that every program form (31: printing of sets / tuples / dicts / interpolations / JSON, =>, where, orderby with tied and total keys, order, rank, sum / mean / min / max / median incl. mapped, grouped and filtered, nest, set patterns (refused open patterns, literal and computed element patterns), single, join, concat, >>, //rel.union) computes the same result for every enumeration order of its set (all 24 permutations of a 4-element model set, 4 key profiles x 3 value profiles incl. catastrophic cancellation under rounded addition), except sorts by tied keys; a sum folded in walk order is the negative control TLC rejects. Every (form, profiles) is rendered over a 12-element set (large enough for the hash trie to scatter it) and evaluated in %d passes of fresh worker processes, each with its own random hash seeds; the printed value (String and Repr) or the fact of an error must be byte-identical across all passes unless the spec marks the case exempt.", n)
		rep.Assume = []string{"hash seeds are sampled (one fresh process = one draw), not enumerated", "error messages are compared as 'is an error'"}
		if rc.Replay == "" {
			st := runTLCPlain(&TLCRun{Module: "EnumOrder", Cfg: "EnumOrder_naive.cfg", Workers: 4, Timeout: 10 * 60e9})
			if !strings.Contains(strings.Join(st.Errors, "\n"), "OrderFree") {
				infraFail("C07: negative control EnumOrder_naive.cfg: TLC did not report OrderFree violated\n%s", strings.Join(st.Tail, "\n"))
			}
			fmt.Printf("  tlc EnumOrder EnumOrder_naive.cfg: OrderFree violated as expected (negative control)\n")
			rep.Extra["negative_control_EnumOrder_naive.cfg"] = "OrderFree rejected by TLC as expected"
		}
		// collect the cases once
		var cases [][]byte
		if rc.Replay != "" {
			for c := range replayCases(rc.Replay) {
				cases = append(cases, c)
			}
		} else {
			r := &TLCRun{Module: "EnumOrder", Cfg: "EnumOrder.cfg", Timeout: 30 * 60e9}
			lines, wait := r.Start()
			for l := range lines {
				cases = append(cases, l)
			}
			st := wait()
			st.RequireClean("C07 EnumOrder")
			rep.TLC = append(rep.TLC, st)
			fmt.Printf("  tlc EnumOrder EnumOrder.cfg: %d states, OrderFree holds for every permutation, %d case lines, %.1fs\n", st.Distinct, len(cases), st.Wall.Seconds())
		}
		type seen struct {
			outs  map[string]int
			seeds map[string]bool
			src   string
		}
		all := make([]*seen, len(cases))
		index := map[string]int{}
		for i, c := range cases {
			all[i] = &seen{outs: map[string]int{}, seeds: map[string]bool{}}
			index[string(c)] = i
		}
		for pass := 0; pass < n; pass++ {
			ch := make(chan []byte, len(cases))
			for _, c := range cases {
				ch <- c
			}
			close(ch)
			(&Pool{Handler: "determinism"}).Run(ch, func(c []byte, o *Obs) {
				s := all[index[string(c)]]
				if len(o.Fails) > 0 || len(o.Data) < 2 {
					s.outs["WORKER-FAILURE"]++
					return
				}
				s.outs[o.Data[0]]++
				s.seeds[o.Data[1]] = true
				s.src = o.Sample
			})
		}
		for i, c := range cases {
			var ec eoCase
			json.Unmarshal(c, &ec) //nolint:errcheck
			s := all[i]
			obs := &Obs{Evals: n, NonTrivial: 1, Sample: s.src}
			if len(s.seeds) > 1 {
				obs.Notes = append(obs.Notes, "several-seeds")
			}
			switch {
			case len(s.outs) == 1:
				if ec.Exempt {
					obs.Notes = append(obs.Notes, "exempt-but-stable")
				} else {
					obs.Notes = append(obs.Notes, "stable")
				}
			case ec.Exempt:
				obs.Notes = append(obs.Notes, "exempt-and-varies")
			default:
				var outs []string
				for o, k := range s.outs {
					outs = append(outs, fmt.Sprintf("%dx %s", k, trunc(o, 400)))
				}
				sort.Strings(outs)
				obs.Fails = append(obs.Fails, Fail{Sig: Signature{Op: ec.Form, ShapeL: ec.KProf, ShapeR: ec.VProf, Symptom: "differs-across-seeds"},
					Detail: fmt.Sprintf("%s\n%d distinct outputs over %d processes (%d distinct seeds):\n%s", s.src, len(s.outs), n, len(s.seeds), strings.Join(outs, "\n")), Source: s.src})
			}
			rep.Add(c, obs)
		}
		return rep.Finish()
	}
}
