package main

import (
	"encoding/json"
	"fmt"
	"os"
	"sort"
	"strconv"
	"time"
)

type RunCtx struct {
	Prop   string
	Tier   string
	Seed   int64
	Replay string
}

type propRunner func(rc *RunCtx) int

var props = map[string]propRunner{}

func usage() {
	ids := []string{}
	for k := range props {
		ids = append(ids, k)
	}
	sort.Strings(ids)
	fmt.Fprintf(os.Stderr, "usage: vcheck <property> [--tier quick|thorough] [--replay file]\n       vcheck worker <handler>\nproperties: %v\n", ids)
	os.Exit(2)
}

func main() {
	if len(os.Args) < 2 {
		usage()
	}
	if os.Args[1] == "worker" {
		workerMain(os.Args[2])
		return
	}
	rc := &RunCtx{Prop: os.Args[1], Tier: os.Getenv("VERIF_TIER"), Seed: verifSeed}
	for i := 2; i < len(os.Args); i++ {
		switch os.Args[i] {
		case "--tier":
			i++
			rc.Tier = os.Args[i]
		case "--replay":
			i++
			rc.Replay = os.Args[i]
		case "--seed":
			i++
			rc.Seed, _ = strconv.ParseInt(os.Args[i], 10, 64)
		default:
			usage()
		}
	}
	if rc.Tier == "" {
		rc.Tier = "quick"
	}
	os.Setenv("VERIF_TIER", rc.Tier)
	os.Setenv("VERIF_SEED", strconv.FormatInt(rc.Seed, 10))
	verifTier, verifSeed = rc.Tier, rc.Seed
	run, ok := props[rc.Prop]
	if !ok {
		usage()
	}
	code := run(rc)
	cleanupScratch()
	os.Exit(code)
}

// replayFile is what Report.Finish writes for a violation.
type replayFile struct {
	Property string   `json:"property"`
	Cases    []string `json:"cases"`
}

// replayCases returns the case lines of a replay file as a channel.
func replayCases(path string) <-chan []byte {
	b, err := os.ReadFile(path)
	must(err)
	var rf replayFile
	must(json.Unmarshal(b, &rf))
	ch := make(chan []byte, len(rf.Cases))
	for _, c := range rf.Cases {
		ch <- []byte(c)
	}
	close(ch)
	return ch
}

// runTLCToPool runs each TLC configuration and streams its case lines through the worker pool.
func runTLCToPool(rep *Report, rc *RunCtx, runs []*TLCRun, pool *Pool) {
	if rc.Replay != "" {
		pool.Run(replayCases(rc.Replay), rep.Add)
		return
	}
	for _, r := range runs {
		lines, wait := r.Start()
		pool.Run(lines, rep.Add)
		st := wait()
		st.RequireClean(rep.Prop + " " + r.Module + "/" + r.Cfg)
		rep.TLC = append(rep.TLC, st)
		if st.Lines == 0 {
			infraFail("%s: TLC emitted no cases (%s)", rep.Prop, st.Cmd)
		}
		fmt.Printf("  tlc %s %s: %d states generated, %d distinct, %d case lines, %.1fs\n", r.Module, r.Cfg, st.Generated, st.Distinct, st.Lines, st.Wall.Seconds())
	}
}

func tierPick[T any](tier string, quick, thorough T) T {
	if tier == "thorough" {
		return thorough
	}
	return quick
}

var _ = time.Second
