package main

// C11: concurrent evaluation over shared values (SharedLazy spec), under the race detector.

import (
	"context"
	"encoding/json"
	"fmt"
	"os"
	"path/filepath"
	"sort"
	"strings"
	"sync"
	"syscall"
	"time"

	"github.com/arr-ai/arrai/pkg/arraictx"
	"github.com/arr-ai/arrai/pkg/importcache"
	"github.com/arr-ai/arrai/rel"
	"github.com/arr-ai/arrai/syntax"
)

type slCase struct {
	Ops  []string `json:"ops"`
	Reps int      `json:"reps,omitempty"`
}

var slExpr = map[string]string{
	"tuple.print": `$"${T}"`, "tuple.inset": `{T, (x: 1)} count`, "tuple.get": `T.a3`, "tuple.map": `T :> 1`, "tuple.equal": `T = T2`,
	"rel.join": `R <&> R2`, "rel.nest": `R nest |b|n`, "rel.where": `R where .a % 2 = 0`, "rel.map": `R => (c: .a + .b)`,
	"rel.orderby": `R orderby .a`, "rel.rank": `R rank (r: .b)`,
	"set.where": `S where . != 3`, "set.map": `S => [.]`, "set.union": `S | {1, "zz"}`, "set.count": `S count`,
	"expr.eval":  `(T.a1 + (R count)) * (S count)`,
	"scope.std":  `//str.upper("ab")`,
	"scope.safe": `//eval.eval("//str.lower('AB')")`,
	"stdin.read": `//os.stdin`,
	"import.file": `//{./lib}`,
}

const slStdin = "the bytes on standard input\n"

var (
	slStdinW  *os.File
	slDir     string
	slRaceLog string
	slRaceOff int64
)

func slInit() {
	slDir = os.Getenv("VERIF_SL_DIR")
	os.Chdir(slDir) //nolint:errcheck
	// standard input is a pipe (the reader of //os.stdin was bound to descriptor 0 at start-up); its
	// content arrives a moment after the goroutines of the first stdin scenario have been released,
	// so that all of them are inside the read together
	if r, w, err := os.Pipe(); err == nil {
		_ = syscall.Dup3(int(r.Fd()), 0, 0)
		slStdinW = w
	}
	slRaceLog = fmt.Sprintf("%s.%d", os.Getenv("VERIF_SL_RACELOG"), os.Getpid())
}

func slShared() (rel.Scope, error) {
	num := func(i int) rel.Value { return rel.NewNumber(float64(i)) }
	str := func(x string) rel.Value { return rel.NewString([]rune(x)) }
	mkT := func() rel.Value {
		var as []rel.Attr
		for i := 0; i < 8; i++ {
			as = append(as, rel.NewAttr(fmt.Sprintf("a%d", i), num(i)))
		}
		as = append(as, rel.NewAttr("n", rel.NewTuple(rel.NewAttr("x", num(1)), rel.NewAttr("y", rel.NewArray(num(2), num(3))))))
		return rel.NewTuple(as...)
	}
	var rs, r2s, ss []rel.Value
	for i := 0; i < 64; i++ {
		rs = append(rs, rel.NewTuple(rel.NewAttr("a", num(i)), rel.NewAttr("b", num(i%7))))
		r2s = append(r2s, rel.NewTuple(rel.NewAttr("b", num(i%7)), rel.NewAttr("c", num(i*3))))
	}
	for i := 0; i < 300; i++ {
		ss = append(ss, num(i))
		if i%3 == 0 {
			ss = append(ss, str(fmt.Sprintf("s%d", i)))
		}
	}
	sc := rel.EmptyScope.With("T", mkT()).With("T2", mkT())
	for n, vs := range map[string][]rel.Value{"R": rs, "R2": r2s, "S": ss} {
		set, err := rel.NewSet(vs...)
		if err != nil {
			return sc, err
		}
		sc = sc.With(n, set)
	}
	return sc, nil
}

func slEval(ctx context.Context, op string, sc rel.Scope, shared rel.Expr) (out string) {
	defer func() {
		if r := recover(); r != nil {
			out = "PANIC " + classifyMsg(safeSprint(r))
		}
	}()
	var v rel.Value
	var err error
	switch op {
	case "scope.std", "scope.safe", "stdin.read":
		v, err = syntax.EvaluateExpr(ctx, "", slExpr[op])
	case "import.file":
		v, err = syntax.EvaluateExpr(ctx, filepath.Join(slDir, "main.arrai"), slExpr[op])
	case "expr.eval":
		v, err = shared.Eval(ctx, sc)
	default:
		var e rel.Expr
		e, err = syntax.Compile(ctx, "", slExpr[op])
		if err == nil {
			v, err = e.Eval(ctx, sc)
		}
	}
	if err != nil {
		return "ERROR " + trunc(safeSprint(err), 120)
	}
	return reprSafe(v)
}

func handleConcurrency(raw json.RawMessage) *Obs {
	var c slCase
	if err := json.Unmarshal(raw, &c); err != nil || len(c.Ops) == 0 {
		return &Obs{Fails: []Fail{{Sig: Signature{Symptom: "bad-case"}, Detail: fmt.Sprint(err)}}}
	}
	reps := c.Reps
	if reps == 0 {
		reps = 2
		if os.Getenv("VERIF_TIER") == "thorough" {
			reps = 12
		}
	}
	ops := append([]string(nil), c.Ops...)
	tag := append([]string(nil), ops...)
	sort.Strings(tag)
	obs := &Obs{NonTrivial: 1, Sample: strings.Join(ops, " || ")}
	fail := func(symptom, msg, frame, detail string) {
		obs.Fails = append(obs.Fails, Fail{Sig: Signature{Op: strings.Join(tag, "+"), Symptom: symptom, Msg: msg, Frame: frame}, Detail: strings.Join(ops, " || ") + "\n" + detail})
	}
	// Process-wide lazies (library scopes, the stdin buffer) are first used once per process. A
	// scenario in which every goroutine performs such a first use gets a process of its own (it is
	// replaced afterwards); elsewhere these operations run against the warmed state.
	firstUse := true
	for _, o := range ops {
		if !(strings.HasPrefix(o, "scope.") || o == "stdin.read") {
			firstUse = false
		}
	}
	obs.Restart = firstUse
	for rep := 0; rep < reps; rep++ {
		sc, err := slShared()
		if err != nil {
			fail("setup", "", "", err.Error())
			return obs
		}
		shared, err := syntax.Compile(arraictx.InitRunCtx(context.Background()), "", slExpr["expr.eval"])
		if err != nil {
			fail("setup", "", "", err.Error())
			return obs
		}
		ctx := importcache.WithNewImportCache(arraictx.InitRunCtx(context.Background()))
		if !strings.Contains(strings.Join(ops, " "), "scope.") {
			syntax.StdScope() // not under test here: warm, so that the goroutines reach their operation together
		}
		start := make(chan struct{})
		results := make([]string, len(ops))
		var wg sync.WaitGroup
		for g, op := range ops {
			wg.Add(1)
			go func(g int, op string) {
				defer wg.Done()
				<-start // a closed channel releases everyone and orders nothing between them
				results[g] = slEval(ctx, op, sc, shared)
			}(g, op)
		}
		close(start)
		if w := slStdinW; w != nil && strings.Contains(strings.Join(ops, " "), "stdin.read") {
			slStdinW = nil
			go func() {
				time.Sleep(150 * time.Millisecond)
				w.WriteString(slStdin) //nolint:errcheck
				w.Close()
			}()
		}
		wg.Wait()
		obs.Evals += len(ops)
		if os.Getenv("VERIF_SL_DEBUG") != "" {
			fmt.Fprintf(os.Stderr, "RESULTS %q\n", results)
		}
		// the serial oracle on fresh values
		sc2, _ := slShared()
		ctx2 := importcache.WithNewImportCache(arraictx.InitRunCtx(context.Background()))
		for g, op := range ops {
			want := slEval(ctx2, op, sc2, shared)
			if op == "stdin.read" && !strings.Contains(want, "standard input") {
				fail("setup", "stdin", "", "stdin content not visible: "+want)
			}
			if results[g] != want {
				fail("not-serial", op, "", fmt.Sprintf("goroutine %d (%s) returned %s\nalone it returns %s", g+1, op, trunc(results[g], 300), trunc(want, 300)))
			}
		}
		if obs.Restart {
			break // first use happens once per process
		}
	}
	// what the race detector wrote during this case
	if b, err := os.ReadFile(slRaceLog); err == nil && int64(len(b)) > slRaceOff {
		text := string(b[slRaceOff:])
		slRaceOff = int64(len(b))
		for _, r := range strings.Split(text, "==================") {
			if !strings.Contains(r, "DATA RACE") {
				continue
			}
			// the two conflicting accesses: the innermost frame of each that is not the Go runtime
			frame := ""
			inAccess := false
			for _, l := range strings.Split(r, "\n") {
				t := strings.TrimSpace(l)
				switch {
				case strings.HasPrefix(t, "Read at"), strings.HasPrefix(t, "Write at"), strings.HasPrefix(t, "Previous read at"),
					strings.HasPrefix(t, "Previous write at"), strings.HasPrefix(t, "Atomic"), strings.HasPrefix(t, "Previous atomic"):
					inAccess = true
					continue
				case t == "":
					inAccess = false
					continue
				}
				if !inAccess || strings.HasPrefix(t, "/") || !strings.Contains(t, "(") {
					continue
				}
				if strings.HasPrefix(t, "runtime.") || strings.HasPrefix(t, "sync.") || strings.HasPrefix(t, "sync/atomic.") || strings.HasPrefix(t, "internal/") {
					continue
				}
				inAccess = false // this is the frame that made the access
				if strings.HasPrefix(t, "github.com/arr-ai/arrai/") && frame == "" {
					frame = strings.TrimPrefix(t, "github.com/arr-ai/arrai/")
					if i := strings.LastIndex(frame, "("); i > 0 {
						frame = frame[:i]
					}
				}
			}
			if frame == "" {
				obs.Notes = append(obs.Notes, "race-report-outside-arrai")
				continue
			}
			fail("race", "data race", frame, trunc(r, 1500))
		}
	}
	return obs
}

func init() {
	handlers["concurrency"] = handleConcurrency
	handlerInit["concurrency"] = slInit
	props["C11"] = func(rc *RunCtx) int {
		rep := NewReport("C11", rc.Tier, rc.Seed, "model_checking")
		rep.Rule = "TLC checks the SharedLazy protocol model (sync.Once with its atomic fast path, mutex-guarded caches incl. the single-flight import cache; memory accesses split into begin/end so that an unordered conflicting pair is a state predicate) for NoRace, ComputeAtMostOnce, NoReadBeforePublish, SerialEquivalence and termination over every interleaving of every assignment of 20 first-use operations to 2 goroutines (400 scenarios) and (thorough) of 9 operations to 3 goroutines (729), and rejects the unsynchronised discipline (negative control). Each scenario runs in a harness built with -race and FROZEN_CONCURRENCY=0 (the trie library then runs Where / Map callbacks on goroutines from 8 elements up): fresh shared values (a 9-attribute tuple, two 64-tuple relations, a 400-element mixed set, one compiled expression, one import cache), all goroutines released by closing one channel, each result compared with the same operation run alone on fresh values; process-wide first uses (library scopes, stdin) get a fresh process per scenario. Violation: a result that differs from the serial one, or a race report whose frames lie in github.com/arr-ai/arrai."
		rep.Assume = []string{"the race detector observes the schedules that happen; repetitions (2 quick, 12 thorough per scenario) sample them", "race reports entirely inside dependencies are counted, not violations"}
		dir := filepath.Join(verifRoot, ".work", fmt.Sprintf("sl-%d", os.Getpid()))
		if err := os.MkdirAll(dir, 0o755); err != nil {
			infraFail("C11: %v", err)
		}
		defer os.RemoveAll(dir)
		for n, c := range map[string]string{"go.mod": "module sl\n", "lib.arrai": "(v: 41 + 1, w: {1, 2, 3} => . * 2)\n", "stdin.txt": slStdin} {
			if err := os.WriteFile(filepath.Join(dir, n), []byte(c), 0o644); err != nil {
				infraFail("C11: %v", err)
			}
		}
		os.Setenv("VERIF_SL_DIR", dir)
		os.Setenv("VERIF_SL_RACELOG", filepath.Join(dir, "race"))
		os.Setenv("VERIF_TIER", rc.Tier)
		env := []string{"GORACE=log_path=" + filepath.Join(dir, "race") + " halt_on_error=0 history_size=3", "FROZEN_CONCURRENCY=0"}
		if rc.Replay == "" {
			st := runTLCPlain(&TLCRun{Module: "SharedLazy", Cfg: "SharedLazy_none.cfg", Workers: 4, Timeout: 10 * 60e9})
			if !strings.Contains(strings.Join(st.Errors, "\n"), "NoRace") && !strings.Contains(strings.Join(st.Errors, "\n"), "ComputeAtMostOnce") {
				infraFail("C11: negative control SharedLazy_none.cfg was not rejected by TLC\n%s", strings.Join(st.Tail, "\n"))
			}
			fmt.Printf("  tlc SharedLazy SharedLazy_none.cfg: unsynchronised discipline rejected as expected (negative control)\n")
			rep.Extra["negative_control_SharedLazy_none.cfg"] = "rejected by TLC as expected"
			live := runTLCPlain(&TLCRun{Module: "SharedLazy", Cfg: "SharedLazy_live.cfg", Workers: 8, Timeout: 20 * 60e9})
			live.RequireClean("C11 SharedLazy_live.cfg")
			rep.TLC = append(rep.TLC, live)
			fmt.Printf("  tlc SharedLazy SharedLazy_live.cfg: %d distinct states, safety and termination hold\n", live.Distinct)
		}
		pool := &Pool{Handler: "concurrency", Race: true, Env: env, Timeout: 120e9}
		isFirstUse := func(l []byte) bool {
			var c slCase
			if json.Unmarshal(l, &c) != nil || len(c.Ops) == 0 {
				return false
			}
			for _, o := range c.Ops {
				if !(strings.HasPrefix(o, "scope.") || o == "stdin.read") {
					return false
				}
			}
			return true
		}
		// first-use scenarios go first: every worker starts fresh and is replaced after each of them
		feed := func(cases [][]byte) {
			sort.SliceStable(cases, func(i, j int) bool { return isFirstUse(cases[i]) && !isFirstUse(cases[j]) })
			ch := make(chan []byte, len(cases))
			for _, c := range cases {
				ch <- c
			}
			close(ch)
			pool.Run(ch, rep.Add)
		}
		if rc.Replay != "" {
			var cases [][]byte
			for c := range replayCases(rc.Replay) {
				cases = append(cases, c)
			}
			feed(cases)
			return rep.Finish()
		}
		cfgs := []string{"SharedLazy_two.cfg"}
		if rc.Tier == "thorough" {
			cfgs = append(cfgs, "SharedLazy_three.cfg")
		}
		var cases [][]byte
		for _, cfg := range cfgs {
			r := &TLCRun{Module: "SharedLazy", Cfg: cfg, Timeout: 30 * 60e9}
			lines, wait := r.Start()
			n := 0
			for l := range lines {
				n++
				var c slCase
				copies := 1
				if json.Unmarshal(l, &c) == nil {
					first := len(c.Ops) > 0
					for _, o := range c.Ops {
						if !(strings.HasPrefix(o, "scope.") || o == "stdin.read") {
							first = false
						}
					}
					if first { // one process sees one first use: give these scenarios several processes
						copies = tierPick(rc.Tier, 6, 24)
					}
				}
				for i := 0; i < copies; i++ {
					cases = append(cases, l)
				}
			}
			st := wait()
			st.RequireClean("C11 " + cfg)
			rep.TLC = append(rep.TLC, st)
			fmt.Printf("  tlc SharedLazy %s: %d distinct states, invariants hold, %d scenarios\n", cfg, st.Distinct, n)
		}
		feed(cases)
		return rep.Finish()
	}
}
