package main

// C09: pattern matching against the Pattern spec's structural matcher.

import (
	"encoding/json"
	"fmt"
	"sort"
	"strings"

	"github.com/arr-ai/arrai/rel"
)

type patNode struct {
	K    string                     `json:"k"`
	V    json.RawMessage            `json:"v"`
	X    string                     `json:"x"`
	Ps   []patNode                  `json:"ps"`
	Rest string                     `json:"rest"`
	D    json.RawMessage            `json:"d"`
	F    json.RawMessage            `json:"f"`
	A    string                     `json:"a"`
	Lits []json.RawMessage          `json:"lits"`
	Kv   []struct {
		Key json.RawMessage `json:"key"`
		Pat *patNode        `json:"pat"`
	} `json:"kv"`
}

// dict patterns have value keys: TLC prints a function with non-string domain as an array of pairs
func (p *patNode) fields() (names []string, subs map[string]patNode, dictKeys []*AV, dictSubs []patNode) {
	subs = map[string]patNode{}
	if len(p.F) == 0 || p.K == "dict" {
		return
	}
	var obj map[string]patNode
	if json.Unmarshal(p.F, &obj) == nil && obj != nil {
		for k, v := range obj {
			names = append(names, k)
			subs[k] = v
		}
		sort.Strings(names)
		return
	}
	return
}

func (p *patNode) dictFields() (keys []*AV, subs []patNode) {
	for _, e := range p.Kv {
		keys = append(keys, MustParseAV(e.Key))
		subs = append(subs, *e.Pat)
	}
	return
}

func restSrc(r string) string {
	switch r {
	case "none", "":
		return ""
	case "any":
		return "..."
	}
	return "..." + r
}

func joinNonEmpty(parts ...string) string {
	var out []string
	for _, p := range parts {
		if p != "" {
			out = append(out, p)
		}
	}
	return strings.Join(out, ", ")
}

func (p *patNode) render(names map[string]bool) string {
	switch p.K {
	case "lit":
		return MustParseAV(p.V).RenderSugar()
	case "name":
		names[p.X] = true
		return p.X
	case "wild":
		return "_"
	case "expr":
		return "(o)"
	case "arr", "arrfb":
		var parts []string
		for i := range p.Ps {
			parts = append(parts, p.Ps[i].render(names))
		}
		if p.K == "arrfb" {
			names[p.X] = true
			parts = append(parts, "?"+p.X+":"+MustParseAV(p.D).RenderSugar())
			return "[" + strings.Join(parts, ", ") + "]"
		}
		if p.Rest != "none" && p.Rest != "any" {
			names[p.Rest] = true
		}
		return "[" + joinNonEmpty(strings.Join(parts, ", "), restSrc(p.Rest)) + "]"
	case "tup", "tupfb":
		ns, subs, _, _ := p.fields()
		var parts []string
		for _, a := range ns {
			s := subs[a]
			parts = append(parts, quoteAttr(specToName(a))+": "+s.render(names))
		}
		if p.K == "tupfb" {
			names[p.X] = true
			parts = append(parts, p.A+"?: "+p.X+":"+MustParseAV(p.D).RenderSugar())
			return "(" + strings.Join(parts, ", ") + ")"
		}
		if p.Rest != "none" && p.Rest != "any" {
			names[p.Rest] = true
		}
		return "(" + joinNonEmpty(strings.Join(parts, ", "), restSrc(p.Rest)) + ")"
	case "dict":
		keys, subs := p.dictFields()
		var parts []string
		for i, k := range keys {
			parts = append(parts, k.RenderSugar()+": "+subs[i].render(names))
		}
		if p.Rest != "none" && p.Rest != "any" {
			names[p.Rest] = true
		}
		return "{" + joinNonEmpty(strings.Join(parts, ", "), restSrc(p.Rest)) + "}"
	case "set":
		var parts []string
		for _, l := range p.Lits {
			parts = append(parts, MustParseAV(l).RenderSugar())
		}
		if p.X != "-" {
			names[p.X] = true
			parts = append(parts, p.X)
		}
		if p.Rest != "none" && p.Rest != "any" {
			names[p.Rest] = true
		}
		return "{" + joinNonEmpty(strings.Join(parts, ", "), restSrc(p.Rest)) + "}"
	}
	return "<?>"
}

func (p *patNode) kindTag() string {
	t := p.K
	if p.Rest != "" && p.Rest != "none" {
		t += "+rest"
	}
	for i := range p.Ps {
		if k := p.Ps[i].K; k != "lit" && k != "name" && k != "wild" && k != "expr" {
			t += ">" + k
		}
	}
	return t
}

func init() {
	handlers["pattern"] = handlePattern
	props["C09"] = func(rc *RunCtx) int {
		rep := NewReport("C09", rc.Tier, rc.Seed, "model_checking")
		rep.Rule = "TLC enumerates every (pattern, value) pair over the pattern universe (literal, two names incl. repeated, _, (expr) of an outer name, array patterns with 0..2 components and none / bare ... / ...t rest, array and tuple fallbacks, tuple and dict patterns over 1..2 components with the three rest forms, set patterns with literals / one free name / rest; thorough: one more level of nesting) and the value universe (numbers, dense arrays of length 0..3, offset / sparse / negative-offset arrays, tuples over subsets of three attributes, number sets, dicts over three keys incl. a multi-valued one, a string, true; thorough: nested) and computes Match(p, v) - the bindings, NoMatch, or Err for undetermined set patterns; TLC checks the defining law Build(p, Match(p, v)) = v. Each pair is run through `let P = v; (names)`, `(\\P (names))(v)` and `cond v {P: (tag: 1, names), _: (tag: 0)}`. Non-trivial: pairs where the spec matches or the value has the pattern's container kind."
		rep.Assume = []string{"errors are compared as 'is an error'", "the outer name o is bound to 2 for the (o) pattern"}
		rep.Exhaust = true
		runTLCToPool(rep, rc, []*TLCRun{{Module: "Pattern", Cfg: tierPick(rc.Tier, "Pattern_quick.cfg", "Pattern_thorough.cfg"), Timeout: 60 * 60e9}}, &Pool{Handler: "pattern"})
		return rep.Finish()
	}
}

func handlePattern(raw json.RawMessage) *Obs {
	var cs struct {
		C struct {
			P patNode         `json:"p"`
			V json.RawMessage `json:"v"`
			M json.RawMessage `json:"m"`
		} `json:"c"`
	}
	if err := json.Unmarshal(raw, &cs); err != nil {
		return &Obs{Fails: []Fail{{Sig: Signature{Symptom: "bad-case"}, Detail: err.Error()}}}
	}
	c := cs.C
	names := map[string]bool{}
	psrc := c.P.render(names)
	v := MustParseAV(c.V)
	obs := &Obs{Key: psrc + "|" + v.Canon()}
	ms := string(c.M)
	noMatch := strings.Contains(ms, "nomatch")
	undet := strings.Contains(ms, `"err"`)
	var nlist []string
	for n := range names {
		nlist = append(nlist, n)
	}
	sort.Strings(nlist)
	var fields []string
	for _, n := range nlist {
		fields = append(fields, n+": "+n)
	}
	result := "(" + strings.Join(fields, ", ") + ")"
	tagged := "(" + joinNonEmpty("tag: 1", strings.Join(fields, ", ")) + ")"
	// expected bindings
	var want *AV
	if !noMatch && !undet {
		b := map[string]*AV{}
		var m map[string]json.RawMessage
		if json.Unmarshal(c.M, &m) == nil {
			for k, r := range m {
				b[k] = MustParseAV(r)
			}
		}
		want = Tup(b)
		obs.NonTrivial = 1
	}
	var val rel.Value
	if _, _, p := catch(func() { val = v.Build() }); p {
		return obs
	}
	if d := compare(v, Outcome{V: val}); !d.ok {
		return obs // the value itself cannot be built faithfully (C01's business)
	}
	vars := map[string]rel.Value{"v": val}
	obs.Sample = fmt.Sprintf("let %s = %s; %s   (spec: %s)", psrc, v.RenderSugar(), result, trunc(ms, 120))
	vsh := v.Shape()
	fail := func(form string, d diffInfo, src string) {
		obs.Fails = append(obs.Fails, Fail{Sig: Signature{Op: form, ShapeL: c.P.kindTag(), ShapeR: vsh.Class, Flags: vsh.Flags(), Symptom: d.symptom, Msg: d.msg, Frame: d.frame},
			Detail: fmt.Sprintf("%s   with v = %s\nspec Match = %s\n%s", src, v.RenderSugar(), trunc(ms, 300), d.detail), Source: src})
	}
	forms := []struct{ name, src string }{
		{"let", "let o = 2; let " + psrc + " = v; " + result},
		{"call", "let o = 2; (\\" + psrc + " " + result + ")(v)"},
	}
	for _, f := range forms {
		obs.Evals++
		o := evalTemplate(f.src, vars)
		switch {
		case o.Kind() == "panic":
			fail(f.name, compare(EmptyAV, o), f.src)
		case want == nil: // no match (or undetermined): must be an error
			if o.Kind() == "value" {
				fail(f.name, diffInfo{symptom: "unexpected-value", msg: "matched-but-should-not", detail: "a non-matching " + f.name + " produced " + o.String()}, f.src)
			}
		default:
			d := compare(want, o)
			if !d.ok {
				if d.symptom == "mismatch" {
					d.msg = "wrong-binding"
				} else if d.symptom == "unexpected-error" {
					d.msg = "refused-but-should-match"
				}
				fail(f.name, d, f.src)
			}
		}
	}
	// cond takes the arm exactly when the pattern matches
	csrc := "let o = 2; cond v {" + psrc + ": " + tagged + ", _: (tag: 0)}"
	obs.Evals++
	o := evalTemplate(csrc, vars)
	switch {
	case o.Kind() == "panic":
		fail("cond", compare(EmptyAV, o), csrc)
	case undet:
	case want == nil:
		if d := compare(Tup(map[string]*AV{"tag": Num(0)}), o); !d.ok {
			d.msg = "matched-but-should-not"
			fail("cond", d, csrc)
		}
	default:
		wt := map[string]*AV{"tag": Num(1)}
		for k, x := range want.T {
			wt[k] = x
		}
		if d := compare(Tup(wt), o); !d.ok {
			if d.symptom == "mismatch" {
				d.msg = "wrong-binding-or-arm"
			}
			fail("cond", d, csrc)
		}
	}
	return obs
}
