package main

// C17: the engine. TLC checks the Engine spec exhaustively (safety + liveness), the as-is variant
// must be rejected (negative control), and executions recorded from the real engine through the
// verif hooks are validated against the spec with EngineTrace.

import (
	"encoding/json"
	"fmt"
	"math/rand"
	"os"
	"path/filepath"
	"strings"
	"sync"
	"time"

	"github.com/arr-ai/arrai/engine"
	"github.com/arr-ai/arrai/rel"
	"github.com/arr-ai/arrai/syntax"
)

type engCase struct {
	Seed    int64 `json:"seed"`
	Clients int   `json:"clients"`
	Ops     int   `json:"ops"`
}

type engEvent map[string]interface{}

type engLog struct {
	mu     sync.Mutex
	events []engEvent
	// engine watcher id -> driver watcher id, bound at the first callback after recvAdd
	idMap      map[uint64]int
	pendingAdd *uint64
	held       engEvent
	nextW      int
}

func (l *engLog) add(e engEvent) {
	l.events = append(l.events, e)
}

var curLog *engLog
var curLogMu sync.Mutex

func engHook(ev string, id uint64, ok bool) {
	curLogMu.Lock()
	l := curLog
	curLogMu.Unlock()
	if l == nil {
		return
	}
	l.mu.Lock()
	defer l.mu.Unlock()
	switch ev {
	case "recvAdd":
		// the driver-level watcher is known at the callback that follows in the loop goroutine
		idc := id
		l.pendingAdd = &idc
	case "recvRemove":
		w, known := l.idMap[id]
		if !known {
			w = -1
		}
		l.add(engEvent{"ev": "recvRemove", "w": w, "found": ok})
	case "ackSend":
		l.add(engEvent{"ev": "ackSend", "ok": ok})
	case "recvUpdate", "install", "hangup":
		l.add(engEvent{"ev": ev})
	}
}

// callback is called by observer callbacks (in the loop goroutine).
func (l *engLog) callback(w int, e engEvent) {
	l.mu.Lock()
	defer l.mu.Unlock()
	if l.pendingAdd != nil {
		l.idMap[*l.pendingAdd] = w
		l.pendingAdd = nil
		l.add(engEvent{"ev": "recvAdd", "w": w})
	}
	l.add(e)
}

func init() {
	handlers["engine-record"] = handleEngineRecord
	handlerInit["engine-record"] = func() { engine.VerifTrace = engHook }
}

const engFailAt = 2

func mustCompile(src string) rel.Expr {
	e, err := syntax.Compile(evalCtx, "", src)
	if err != nil {
		panic(err)
	}
	return e
}

func handleEngineRecord(raw json.RawMessage) *Obs {
	var c engCase
	json.Unmarshal(raw, &c)
	obs := &Obs{Evals: 1, NonTrivial: 1, Key: fmt.Sprint(c.Seed)}
	rng := rand.New(rand.NewSource(c.Seed))
	exprOK := mustCompile(`$ + 1`)
	exprBad := mustCompile(`$.nope`)
	exprSame := mustCompile(`$`)
	obsGood := mustCompile(`$`)
	obsFail := mustCompile(fmt.Sprintf(`cond $ {%d: $.nope, _: $}`, engFailAt))

	eng := engine.Start()
	if err := eng.Update(mustCompile(`0`)); err != nil {
		panic(err)
	}
	_ = eng.Update(exprBad) // barrier: the setup update is installed before logging starts
	log := &engLog{idMap: map[uint64]int{}, nextW: 1}
	curLogMu.Lock()
	curLog = log
	curLogMu.Unlock()

	type watcherRef struct {
		w      int
		cancel func()
	}
	wedged := make(chan string, 16)
	var wg sync.WaitGroup
	call := func(cname, op string, f func()) bool {
		done := make(chan struct{})
		go func() { f(); close(done) }()
		select {
		case <-done:
			return true
		case <-time.After(20 * time.Second):
			wedged <- fmt.Sprintf("%s: %s did not return within 20s", cname, op)
			return false
		}
	}
	client := func(ci int, nops int, r *rand.Rand, barrier bool) {
		defer wg.Done()
		cname := fmt.Sprintf("c%d", ci+1)
		var mine []watcherRef
		logEv := func(e engEvent) {
			log.mu.Lock()
			log.add(e)
			log.mu.Unlock()
		}
		doUpdate := func(ok, inc bool) bool {
			logEv(engEvent{"ev": "invoke", "c": cname, "op": "update", "ok": ok, "inc": inc})
			var err error
			expr := exprOK
			if !ok {
				expr = exprBad
			} else if !inc {
				expr = exprSame
			}
			if !call(cname, "update", func() { err = eng.Update(expr) }) {
				return false
			}
			logEv(engEvent{"ev": "return", "c": cname, "op": "update", "err": err != nil})
			return true
		}
		for i := 0; i < nops; i++ {
			x := r.Intn(100)
			switch {
			case x < 27:
				if !doUpdate(true, true) {
					return
				}
			case x < 37:
				if !doUpdate(true, false) { // a valid update that leaves the value as it is
					return
				}
			case x < 45:
				if !doUpdate(false, true) {
					return
				}
			case x < 70:
				kind := []string{"good", "good", "failexpr", "failcb"}[r.Intn(4)]
				log.mu.Lock()
				w := log.nextW
				log.nextW++
				log.add(engEvent{"ev": "invoke", "c": cname, "op": "observe", "w": w, "kind": kind})
				log.mu.Unlock()
				expr := obsGood
				if kind == "failexpr" {
					expr = obsFail
				}
				onupdate := func(v rel.Value) error {
					n, _ := v.(rel.Number)
					log.callback(w, engEvent{"ev": "deliver", "w": w, "db": int(n.Float64())})
					if kind == "failcb" && int(n.Float64()) == engFailAt {
						return fmt.Errorf("callback refuses state %d", engFailAt)
					}
					return nil
				}
				onclose := func(err error) {
					log.callback(w, engEvent{"ev": "close", "w": w, "err": err != nil})
				}
				var cancel func()
				if !call(cname, "observe", func() { cancel = eng.Observe(expr, onupdate, onclose) }) {
					return
				}
				mine = append(mine, watcherRef{w, cancel})
				logEv(engEvent{"ev": "return", "c": cname, "op": "observe"})
			case x < 90:
				if len(mine) == 0 {
					continue
				}
				ref := mine[r.Intn(len(mine))] // may already be cancelled, failed or hung up
				logEv(engEvent{"ev": "invoke", "c": cname, "op": "cancel", "w": ref.w})
				if !call(cname, "cancel", ref.cancel) {
					return
				}
				logEv(engEvent{"ev": "return", "c": cname, "op": "cancel"})
			default:
				logEv(engEvent{"ev": "invoke", "c": cname, "op": "hangup"})
				if !call(cname, "hangup", eng.Hangup) {
					return
				}
				logEv(engEvent{"ev": "return", "c": cname, "op": "hangup"})
			}
		}
	}
	for ci := 0; ci < c.Clients; ci++ {
		wg.Add(1)
		go client(ci, c.Ops, rand.New(rand.NewSource(rng.Int63())), false)
	}
	wg.Wait()
	// barrier: an invalid update by c1; when it returns the loop has finished everything before it
	barrierOK := true
	if len(wedged) == 0 {
		log.mu.Lock()
		log.add(engEvent{"ev": "invoke", "c": "c1", "op": "update", "ok": false, "inc": true})
		log.mu.Unlock()
		var err error
		barrierOK = call("c1", "barrier update", func() { err = eng.Update(exprBad) })
		if barrierOK {
			log.mu.Lock()
			log.add(engEvent{"ev": "return", "c": "c1", "op": "update", "err": err != nil})
			log.mu.Unlock()
		}
	}
	curLogMu.Lock()
	curLog = nil
	curLogMu.Unlock()
	log.mu.Lock()
	events := append([]engEvent{}, log.events...)
	log.mu.Unlock()
	lines := make([]string, 0, len(events)+1)
	for _, e := range events {
		lines = append(lines, string(mustJSON(e)))
	}
	if len(wedged) > 0 || !barrierOK {
		msg := "barrier update did not return"
		if len(wedged) > 0 {
			msg = <-wedged
		}
		obs.Fails = append(obs.Fails, Fail{Sig: Signature{Op: "engine", Symptom: "timeout", Msg: "wedge"},
			Detail: msg + "\nhistory so far:\n" + strings.Join(lastN(lines, 25), "\n")})
		return obs
	}
	call("main", "stop", eng.Stop)
	obs.Data = lines
	obs.Sample = strings.Join(firstN(lines, 12), " ")
	return obs
}

func lastN(s []string, n int) []string {
	if len(s) > n {
		return s[len(s)-n:]
	}
	return s
}
func firstN(s []string, n int) []string {
	if len(s) > n {
		return s[:n]
	}
	return s
}

func init() {
	props["C17"] = func(rc *RunCtx) int {
		rep := NewReport("C17", rc.Tier, rc.Seed, "model_checking")
		rep.Rule = "(1) TLC explores every interleaving of the Engine spec (2 clients, bounded operations: valid/invalid updates, observers that are good / fail on one state / whose callback errors on one state, cancels incl. repeated ones, hang-ups) and checks NoWedge, DeliveredExactly, CloseAtMostOnce, InAckOrder and the liveness property EveryCallReturns; the as-is variant (self-cancel from the loop, nil watcher on unknown cancel) must be REJECTED by TLC. (2) Randomised concurrent histories are run against the real engine with the verif hooks on; every recorded execution (hook events + callbacks + client invoke/return lines) is validated line by line against the spec by TLC (EngineTrace) with all safety invariants evaluated in every state; a client call that does not return within 8 s is a wedge. Non-trivial: every recorded execution (3 concurrent clients)."
		rep.Assume = []string{"events are ordered by one mutex-protected log taken at the hook / callback / call site", "the 20 s deadline only classifies non-termination"}
		// 1. design model
		st := runTLCPlain(&TLCRun{Module: "Engine", Cfg: tierPick(rc.Tier, "Engine_quick.cfg", "Engine_thorough.cfg"), Timeout: 60 * time.Minute, Heap: "12g"})
		st.RequireClean("Engine design model")
		rep.TLC = append(rep.TLC, st)
		fmt.Printf("  tlc Engine: %d states generated, %d distinct, safety + liveness hold, %.1fs\n", st.Generated, st.Distinct, st.Wall.Seconds())
		// 2. negative control
		neg := runTLCPlain(&TLCRun{Module: "Engine", Cfg: "Engine_asis.cfg", Timeout: 10 * time.Minute})
		if !strings.Contains(strings.Join(neg.Errors, "\n"), "NoWedge is violated") {
			infraFail("negative control: TLC did not reject the as-is engine model\n%s", strings.Join(neg.Tail, "\n"))
		}
		fmt.Printf("  tlc Engine (as-is variant): NoWedge violated as expected (negative control)\n")
		// 3. record executions
		n := tierPick(rc.Tier, 200, 4000)
		cases := make(chan []byte, n)
		if rc.Replay != "" {
			for c := range replayCases(rc.Replay) {
				cases <- c
			}
		} else {
			for i := 0; i < n; i++ {
				cases <- mustJSON(engCase{Seed: rc.Seed*1000003 + int64(i), Clients: 3, Ops: 2 + i%7})
			}
		}
		close(cases)
		type rec struct {
			c     []byte
			lines []string
		}
		var recs []rec
		pool := &Pool{Handler: "engine-record", Timeout: 90 * time.Second}
		pool.Run(cases, func(c []byte, o *Obs) {
			rep.Add(c, o)
			if len(o.Data) > 0 {
				recs = append(recs, rec{append([]byte{}, c...), o.Data})
			}
		})
		// 4. validate them
		totalEvents := 0
		for round := 0; round < 6 && len(recs) > 0; round++ {
			path := filepath.Join(verifRoot, ".work", fmt.Sprintf("engine-trace-%d.ndjson", os.Getpid()))
			var sb strings.Builder
			starts := []int{}
			line := 0
			for _, r := range recs {
				starts = append(starts, line+1)
				for _, l := range r.lines {
					sb.WriteString(l + "\n")
					line++
				}
				sb.WriteString(`{"ev":"reset"}` + "\n")
				line++
			}
			must(os.WriteFile(path, []byte(sb.String()), 0o644))
			ts := runTLCPlain(&TLCRun{Module: "EngineTrace", Cfg: "EngineTrace.cfg", Workers: 1, Timeout: 30 * time.Minute, ExtraFiles: map[string]string{path: "trace.ndjson"},
				Env: []string{"JAVA_TOOL_OPTIONS=-Dtlc2.tool.queue.IStateQueue=StateDeque"}})
			os.Remove(path)
			if round == 0 {
				totalEvents = line
				rep.TLC = append(rep.TLC, ts)
			}
			all := strings.Join(append(ts.Errors, ts.PrintedVals...), "\n") + strings.Join(ts.Tail, "\n")
			rejected := strings.Contains(all, "TRACE-REJECTED") || strings.Contains(all, "is violated")
			if !rejected {
				if ts.ExitCode != 0 {
					infraFail("EngineTrace: TLC exit %d\n%s", ts.ExitCode, strings.Join(ts.Tail, "\n"))
				}
				break
			}
			// which execution? TLC reports the diameter reached = line number
			at := ts.Diameter
			if at == 0 {
				at = int64(ts.Depth)
			}
			idx := 0
			for i, s := range starts {
				if int64(s) <= at {
					idx = i
				}
			}
			bad := recs[idx]
			what := "the recorded execution is not a behaviour of the Engine spec"
			if strings.Contains(all, "is violated") {
				what = "an Engine invariant is violated in a state of the recorded execution"
			}
			rel := int(at) - starts[idx]
			rep.AddFail(string(bad.c), Fail{Sig: Signature{Op: "engine", Symptom: "rejected", Msg: "trace"},
				Detail: fmt.Sprintf("%s (event %d of the execution)\n%s\n--- execution ---\n%s", what, rel+1, trunc(all, 1500), strings.Join(bad.lines, "\n"))})
			recs = append(recs[:idx], recs[idx+1:]...)
		}
		rep.Traces = int64(n)
		rep.Extra["trace_events_validated"] = totalEvents
		fmt.Printf("  recorded %d executions (%d events) validated by EngineTrace\n", n, totalEvents)
		return rep.Finish()
	}
}

// runTLCPlain runs TLC to completion, discarding case lines.
func runTLCPlain(r *TLCRun) *TLCStats {
	lines, wait := r.Start()
	for range lines {
	}
	return wait()
}
