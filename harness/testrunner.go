package main

// C20: `arrai test` against the TestRunner spec's leaf census.

import (
	"bytes"
	"context"
	"encoding/json"
	"fmt"
	"regexp"
	"strconv"
	"strings"

	"github.com/spf13/afero"

	"github.com/arr-ai/arrai/pkg/arraictx"
	"github.com/arr-ai/arrai/pkg/ctxfs"
	"github.com/arr-ai/arrai/pkg/test"
)

func init() {
	handlers["testrunner"] = handleTestRunner
	props["C20"] = func(rc *RunCtx) int {
		rep := NewReport("C20", rc.Tier, rc.Seed, "model_checking")
		rep.Rule = "TLC enumerates result trees (leaves: true, false, a number, a string, a set of numbers, a relation, the empty tuple; containers: tuples, dense / sparse / offset arrays, dictionaries incl. one with two values for a key; nesting depth 2, thorough 3) x directory layouts (single file, nested directory with a passing / failing file, a failing file in a hidden directory, a failing non-test file, a file that does not compile, tests only in a hidden directory) and computes the leaf census and verdict from the denotation of the tree. Each case is written to an in-memory file system and run with test.RunTests; the returned error and the PASS / FAIL / ?? lines and summary of the report are compared with the census. Non-trivial: trees with at least one container."
		rep.Assume = []string{"the report format (PASS/FAIL/?? lines, 'N passed of M total') is parsed textually"}
		rep.Exhaust = true
		runTLCToPool(rep, rc, []*TLCRun{{Module: "TestRunner", Cfg: tierPick(rc.Tier, "TestRunner_quick.cfg", "TestRunner_thorough.cfg")}}, &Pool{Handler: "testrunner"})
		return rep.Finish()
	}
}

var (
	reAnsi    = regexp.MustCompile("\x1b\\[[0-9;]*m")
	reSummary = regexp.MustCompile(`(\d+) passed of (\d+) total`)
	reFailed  = regexp.MustCompile(`(\d+) failed`)
	reInvalid = regexp.MustCompile(`(\d+) invalid`)
)

func handleTestRunner(raw json.RawMessage) *Obs {
	var cs struct {
		C struct {
			V      json.RawMessage `json:"v"`
			Layout string          `json:"layout"`
			Exp    struct {
				Err, Ok                    bool
				Pass, Fail, Invalid, Total int
			} `json:"exp"`
		} `json:"c"`
	}
	if err := json.Unmarshal(raw, &cs); err != nil {
		return &Obs{Fails: []Fail{{Sig: Signature{Symptom: "bad-case"}, Detail: err.Error()}}}
	}
	c := cs.C
	v := MustParseAV(c.V)
	obs := &Obs{Evals: 1, Key: v.Canon() + c.Layout}
	if v.K == 't' && len(v.T) > 0 || v.K == 's' && len(v.S) > 0 && !v.Equal(TrueAV) {
		obs.NonTrivial = 1
	}
	// recipe: sugar for even hashes, explicit tuples otherwise (an array may arrive as a set of item tuples)
	src := v.RenderSugar()
	if hashOf(verifSeed, obs.Key)%2 == 1 {
		src = v.Render()
	}
	mem := afero.NewMemMapFs()
	main := "/t/main_test.arrai"
	switch c.Layout {
	case "only-hidden":
		main = "/t/.hidden/main_test.arrai"
		afero.WriteFile(mem, "/t/readme.txt", []byte("x"), 0o644)
	case "nested-true":
		afero.WriteFile(mem, "/t/sub/deep/other_test.arrai", []byte("true"), 0o644)
	case "nested-false":
		afero.WriteFile(mem, "/t/sub/deep/other_test.arrai", []byte("(x: false)"), 0o644)
	case "hidden-false":
		afero.WriteFile(mem, "/t/.git/other_test.arrai", []byte("false"), 0o644)
	case "nontest-false":
		afero.WriteFile(mem, "/t/other.arrai", []byte("false"), 0o644)
		afero.WriteFile(mem, "/t/sub/test_other.arrai", []byte("false"), 0o644)
	case "hidden-file":
		afero.WriteFile(mem, "/t/sub/.wip_test.arrai", []byte("false"), 0o644)
		afero.WriteFile(mem, "/t/sub/z_test.arrai", []byte("[false]"), 0o644)
		afero.WriteFile(mem, "/t/sub/zz/deep_test.arrai", []byte("(x: 1)"), 0o644)
	case "broken":
		afero.WriteFile(mem, "/t/sub/broken_test.arrai", []byte("(a: 1).b"), 0o644) // fails to evaluate (a parse error can take minutes to print: see KF-wbnf-parse-error-blowup)
	}
	afero.WriteFile(mem, main, []byte(src), 0o644)
	ctx := ctxfs.SourceFsOnto(arraictx.InitRunCtx(context.Background()), mem)
	var buf bytes.Buffer
	var err error
	pmsg, pframe, p := catch(func() { err = test.RunTests(ctx, &buf, "/t") })
	report := reAnsi.ReplaceAllString(buf.String(), "")
	obs.Sample = fmt.Sprintf("layout %s, /t/main_test.arrai = %s  -> expected %+v", c.Layout, trunc(src, 200), c.Exp)
	sh := v.Shape()
	fail := func(sym, msgc, detail string) {
		obs.Fails = append(obs.Fails, Fail{Sig: Signature{Op: "test:" + c.Layout, ShapeL: sh.Class, Flags: sh.Flags(), Symptom: sym, Msg: msgc, Frame: pframe},
			Detail: fmt.Sprintf("layout %s; main_test.arrai = %s\nexpected %+v\n%s", c.Layout, src, c.Exp, detail), Source: src})
	}
	if p {
		fail("panic", classifyMsg(pmsg), "panic: "+trunc(pmsg, 300))
		return obs
	}
	if c.Exp.Err {
		if err == nil {
			fail("unexpected-value", "run-should-fail", "the run cannot complete (no test files / a file does not compile) but RunTests returned nil\n"+trunc(report, 400))
		}
		return obs
	}
	if (err == nil) != c.Exp.Ok {
		kind := "false-pass"
		if err != nil {
			kind = "false-fail"
		}
		fail("mismatch", kind, fmt.Sprintf("RunTests returned %v\n%s", err, trunc(report, 600)))
		return obs
	}
	got := struct{ pass, fail, invalid, total int }{}
	for _, l := range strings.Split(report, "\n") {
		switch {
		case strings.HasPrefix(l, "PASS"):
			got.pass++
		case strings.HasPrefix(l, "FAIL"):
			got.fail++
		case strings.HasPrefix(l, " ?? "):
			got.invalid++
		}
	}
	sum := struct{ pass, total, failed, invalid int }{}
	if m := reSummary.FindStringSubmatch(report); m != nil {
		sum.pass, _ = strconv.Atoi(m[1])
		sum.total, _ = strconv.Atoi(m[2])
	} else {
		fail("mismatch", "no-summary", trunc(report, 400))
		return obs
	}
	if m := reFailed.FindStringSubmatch(report); m != nil {
		sum.failed, _ = strconv.Atoi(m[1])
	}
	if m := reInvalid.FindStringSubmatch(report); m != nil {
		sum.invalid, _ = strconv.Atoi(m[1])
	}
	if got.pass != c.Exp.Pass || got.fail != c.Exp.Fail || got.invalid != c.Exp.Invalid {
		fail("mismatch", "leaf-lines", fmt.Sprintf("report lines: %d PASS, %d FAIL, %d ??\n%s", got.pass, got.fail, got.invalid, trunc(report, 600)))
	} else if sum.pass != c.Exp.Pass || sum.total != c.Exp.Total || sum.failed != c.Exp.Fail || sum.invalid != c.Exp.Invalid {
		fail("mismatch", "summary", fmt.Sprintf("summary: %d failed, %d invalid, %d passed of %d total\n%s", sum.failed, sum.invalid, sum.pass, sum.total, trunc(report, 600)))
	}
	return obs
}
