package main

// C15: a bundle evaluates exactly like its sources (Bundle spec).

import (
	"archive/zip"
	"bytes"
	"context"
	"encoding/json"
	"fmt"
	"os"
	"path/filepath"
	"regexp"
	"sort"
	"strings"

	"github.com/spf13/afero"

	"github.com/arr-ai/arrai/pkg/arraictx"
	"github.com/arr-ai/arrai/pkg/bundle"
	"github.com/arr-ai/arrai/pkg/ctxfs"
	"github.com/arr-ai/arrai/rel"
	"github.com/arr-ai/arrai/syntax"
)

type bFile struct {
	D []string `json:"d"`
	N string   `json:"n"`
}

func (f bFile) rel() string  { return filepath.Join(append(append([]string{}, f.D...), f.N)...) }
func (f bFile) id() string   { return "ID:" + strings.Join(append(append([]string{}, f.D...), f.N), "/") }
func (f bFile) dir() string  { return filepath.Join(f.D...) }

type bImp struct {
	Form string `json:"form"`
	T    bFile  `json:"t"`
	Dec  string `json:"dec"`
}

type bCase struct {
	Sent  [][]string `json:"sent"`
	Main  bFile      `json:"main"`
	Edges []struct {
		F    bFile  `json:"f"`
		Imps []bImp `json:"imps"`
	} `json:"edges"`
	Ok       bool     `json:"ok"`
	Pre      []bFile  `json:"pre"`
	MainRoot []string `json:"mainroot"`
	Mod      string   `json:"mod"`
	Archive  []struct {
		Dir []string `json:"dir"`
		N   string   `json:"n"`
	} `json:"archive"`
}

var bMods = map[string]string{"": "ex.com/top", "a": "ex.com/mid", "a/b": "ex.com/low", "c": "ex.com/side"}
var bDirs = [][]string{{}, {"a"}, {"a", "b"}, {"c"}}

func isPrefixDir(p, d []string) bool {
	if len(p) > len(d) {
		return false
	}
	for i := range p {
		if p[i] != d[i] {
			return false
		}
	}
	return true
}

func (c *bCase) hostRoot(d []string) ([]string, bool) {
	var best []string
	found := false
	for _, s := range c.Sent {
		if isPrefixDir(s, d) && (!found || len(s) > len(best)) {
			best, found = s, true
		}
	}
	return best, found
}

// the import expression as the source text spells it
func (c *bCase) importSrc(f bFile, i bImp) string {
	base := f.D
	lead := "./"
	if i.Form == "root" {
		lead = "/"
		if r, ok := c.hostRoot(f.D); ok {
			base = r
		}
	}
	segs := append(append([]string{}, i.T.D[len(base):]...), strings.TrimSuffix(i.T.N, ".arrai"))
	p := lead + strings.Join(segs, "/")
	switch i.Dec {
	case "json":
		return "//[//encoding.json]{" + p + "}"
	case "bytes":
		return "//[//encoding.bytes]{" + p + "}"
	}
	return "//{" + p + "}"
}

func (c *bCase) writeTree(ws string) error {
	imps := map[string][]bImp{}
	for _, e := range c.Edges {
		imps[e.F.rel()] = e.Imps
	}
	for _, d := range bDirs {
		dir := filepath.Join(ws, filepath.Join(d...))
		if err := os.MkdirAll(dir, 0o755); err != nil {
			return err
		}
		for _, n := range []string{"x.arrai", "y.arrai"} {
			f := bFile{D: d, N: n}
			var parts []string
			for _, i := range imps[f.rel()] {
				parts = append(parts, c.importSrc(f, i))
			}
			src := fmt.Sprintf("(id: %q, imps: [%s])\n", f.id(), strings.Join(parts, ", "))
			if err := os.WriteFile(filepath.Join(dir, n), []byte(src), 0o644); err != nil {
				return err
			}
		}
		if err := os.WriteFile(filepath.Join(dir, "d.json"), []byte(fmt.Sprintf("{\"id\": %q}\n", bFile{D: d, N: "d.json"}.id())), 0o644); err != nil {
			return err
		}
		if len(d) == 0 || (len(d) == 1 && d[0] == "a") {
			if err := os.WriteFile(filepath.Join(dir, "e.txt"), nil, 0o644); err != nil {
				return err
			}
		}
	}
	for _, s := range c.Sent {
		key := strings.Join(s, "/")
		if err := os.WriteFile(filepath.Join(ws, filepath.Join(s...), "go.mod"), []byte("module "+bMods[key]+"\n\ngo 1.20\n"), 0o644); err != nil {
			return err
		}
	}
	return nil
}

var bIDRe = regexp.MustCompile(`ID:[a-z/.]*`)

func idsOf(v rel.Value) []string { return bIDRe.FindAllString(reprSafe(v), -1) }

type bRun struct {
	cwd, path, label string
}

var bCaseSeq int

func handleBundle(raw json.RawMessage) *Obs {
	var c bCase
	if err := json.Unmarshal(raw, &c); err != nil {
		return &Obs{Fails: []Fail{{Sig: Signature{Symptom: "bad-case"}, Detail: err.Error()}}}
	}
	bCaseSeq++
	base := os.Getenv("VERIF_BUNDLE_DIR")
	top := filepath.Join(base, fmt.Sprintf("w%d-%d", os.Getpid(), bCaseSeq))
	ws := filepath.Join(top, "ws")
	neutral := filepath.Join(top, "elsewhere")
	defer func() { os.Chdir(base); os.RemoveAll(top) }() //nolint:errcheck
	if err := os.MkdirAll(neutral, 0o755); err != nil {
		return &Obs{Fails: []Fail{{Sig: Signature{Symptom: "setup"}, Detail: err.Error()}}}
	}
	if err := c.writeTree(ws); err != nil {
		return &Obs{Fails: []Fail{{Sig: Signature{Symptom: "setup"}, Detail: err.Error()}}}
	}
	mainAbs := filepath.Join(ws, c.Main.rel())
	src, _ := os.ReadFile(mainAbs)
	runs := []bRun{{ws, c.Main.rel(), "relative-from-top"}, {neutral, mainAbs, "absolute-from-elsewhere"}}
	if len(c.Main.D) > 0 {
		runs = append(runs, bRun{filepath.Join(ws, c.Main.dir()), c.Main.N, "bare-name-in-its-directory"})
	}
	var want []string
	for _, f := range c.Pre {
		want = append(want, f.id())
	}
	layout := c.layoutTag()
	obs := &Obs{NonTrivial: 1, Sample: fmt.Sprintf("%s (spec: ok=%v, %d archive entries)", layout, c.Ok, len(c.Archive))}
	fail := func(run, symptom, msg, detail string) {
		obs.Fails = append(obs.Fails, Fail{Sig: Signature{Op: run, ShapeL: c.sentTag(), ShapeR: c.edgeTag(), Symptom: symptom, Msg: msg},
			Detail: fmt.Sprintf("layout: %s\n%s", layout, detail)})
	}
	// what the spec says the archive holds
	var wantEntries []string
	for _, e := range c.Archive {
		wantEntries = append(wantEntries, strings.Join(append(append([]string{}, e.Dir...), e.N), "/"))
	}
	sort.Strings(wantEntries)

	for _, r := range runs {
		// 1. from source
		os.Chdir(r.cwd) //nolint:errcheck
		var sv rel.Value
		var serr error
		obs.Evals++
		_, _, sp := catch(func() { sv, serr = syntax.EvaluateExpr(arraictx.InitRunCtx(context.Background()), r.path, string(src)) })
		sourceOK := !sp && serr == nil
		if sourceOK != c.Ok {
			fail(r.label, "source-differs-from-spec", fmt.Sprintf("source-ok=%v", sourceOK), fmt.Sprintf("the spec says evaluating from source %s; it did the opposite (%v)", okWord(c.Ok), errWord(serr)))
			continue
		}
		if sourceOK && !equalStrings(idsOf(sv), want) {
			fail(r.label, "source-differs-from-spec", "wrong-files", fmt.Sprintf("from source the value mentions %v, the spec resolves %v", idsOf(sv), want))
			continue
		}
		// 2. bundle
		var buf bytes.Buffer
		var berr error
		obs.Evals++
		_, _, bp := catch(func() { berr = bundle.BundledScripts(arraictx.InitRunCtx(context.Background()), r.path, &buf) })
		if bp || berr != nil {
			if c.Ok {
				fail(r.label, "bundling-fails", classifyBundleErr(berr), fmt.Sprintf("evaluating from source gives %s, but `arrai bundle` fails: %v", trunc(reprSafe(sv), 200), errWord(berr)))
			} else {
				obs.Notes = append(obs.Notes, "both-fail")
			}
			continue
		}
		zr, zerr := zip.NewReader(bytes.NewReader(buf.Bytes()), int64(buf.Len()))
		if zerr != nil {
			fail(r.label, "bad-archive", "unreadable", zerr.Error())
			continue
		}
		var got []string
		for _, f := range zr.File {
			got = append(got, f.Name)
		}
		sort.Strings(got)
		if c.Ok && !equalStrings(got, wantEntries) {
			// a file the spec's Archive names but the bundle lacks is a violation; entries beyond the
			// spec's (the property does not forbid them) are only counted
			if cls := entryDiffClass(got, wantEntries); strings.Contains(cls, "missing=true") {
				fail(r.label, "archive-entries", cls, fmt.Sprintf("archive holds   %v\nspec's Archive  %v", got, wantEntries))
			} else {
				obs.Notes = append(obs.Notes, "archive-has-extra-entries")
			}
		}
		// 3. run the bundle with the source tree gone, from elsewhere, on recording file systems
		gone := ws + ".gone"
		os.Chdir(neutral) //nolint:errcheck
		if err := os.Rename(ws, gone); err != nil {
			fail(r.label, "setup", "rename", err.Error())
			continue
		}
		srcFs := &recFs{Fs: afero.NewMemMapFs()}
		rtFs := &recFs{Fs: afero.NewMemMapFs()}
		ctx := arraictx.InitRunCtx(context.Background())
		ctx = ctxfs.RuntimeFsOnto(ctxfs.SourceFsOnto(ctx, srcFs), rtFs)
		var bv rel.Value
		var rerr error
		obs.Evals++
		msg, _, rp := catch(func() { bv, rerr = syntax.EvaluateBundleCtx(ctx, buf.Bytes()) })
		os.Rename(gone, ws) //nolint:errcheck
		touched := append(append(append(append([]string{}, srcFs.Opens...), srcFs.Stats...), rtFs.Opens...), rtFs.Stats...)
		touched = append(append(touched, srcFs.Muts...), rtFs.Muts...)
		switch {
		case !c.Ok:
			if !rp && rerr == nil {
				fail(r.label, "bundle-succeeds-where-source-fails", "", fmt.Sprintf("from source: %v; the bundle evaluates to %s", errWord(serr), trunc(reprSafe(bv), 200)))
			} else {
				obs.Notes = append(obs.Notes, "both-fail-at-run")
			}
		case rp:
			fail(r.label, "bundle-run-panics", classifyMsg(msg), fmt.Sprintf("from source: %s\nthe bundle panics: %s", trunc(reprSafe(sv), 200), trunc(msg, 300)))
		case rerr != nil:
			fail(r.label, "bundle-run-fails", classifyBundleErr(rerr), fmt.Sprintf("from source: %s\nthe bundle fails: %s\narchive: %v", trunc(reprSafe(sv), 200), trunc(safeSprint(rerr), 300), got))
		case !bv.Equal(sv) || reprSafe(bv) != reprSafe(sv):
			fail(r.label, "bundle-value-differs", "", fmt.Sprintf("from source: %s\nfrom bundle: %s", trunc(reprSafe(sv), 300), trunc(reprSafe(bv), 300)))
		default:
			obs.Notes = append(obs.Notes, "agrees")
		}
		if len(touched) > 0 {
			fail(r.label, "touches-outside-archive", "", fmt.Sprintf("evaluating the bundle touched the host file systems: %v", touched))
		}
	}
	return obs
}

func okWord(ok bool) string {
	if ok {
		return "succeeds"
	}
	return "fails"
}

func errWord(err error) string {
	if err == nil {
		return "no error"
	}
	return trunc(safeSprint(err), 300)
}

func classifyBundleErr(err error) string {
	if err == nil {
		return "panic"
	}
	m := safeSprint(err)
	switch {
	case strings.Contains(m, "module root not found"):
		return "module-root-not-found"
	case strings.Contains(m, "file does not exist"), strings.Contains(m, "no such file"):
		return "file-not-in-archive"
	case strings.Contains(m, "sentinel"):
		return "sentinel"
	}
	return "other"
}

func entryDiffClass(got, want []string) string {
	g, w := map[string]bool{}, map[string]bool{}
	for _, x := range got {
		g[x] = true
	}
	for _, x := range want {
		w[x] = true
	}
	missing, extra := 0, 0
	for x := range w {
		if !g[x] {
			missing++
		}
	}
	for x := range g {
		if !w[x] {
			extra++
		}
	}
	return fmt.Sprintf("missing=%v,extra=%v", missing > 0, extra > 0)
}

func equalStrings(a, b []string) bool {
	if len(a) != len(b) {
		return false
	}
	for i := range a {
		if a[i] != b[i] {
			return false
		}
	}
	return true
}

func (c *bCase) sentTag() string {
	var ss []string
	for _, s := range c.Sent {
		ss = append(ss, "/"+strings.Join(s, "/"))
	}
	sort.Strings(ss)
	rel := "no-module"
	if r, ok := c.hostRoot(c.Main.D); ok {
		rel = fmt.Sprintf("module-%d-above", len(c.Main.D)-len(r))
	}
	nested := false
	for _, s := range c.Sent {
		if isPrefixDir(c.Main.D, s) && len(s) > len(c.Main.D) {
			nested = true
		}
	}
	if nested {
		rel += "+module-below"
	}
	return rel
}

func (c *bCase) edgeTag() string {
	var ts []string
	for _, e := range c.Edges {
		for _, i := range e.Imps {
			kind := "script"
			switch {
			case strings.HasSuffix(i.T.N, ".json"):
				kind = "json"
			case strings.HasSuffix(i.T.N, ".txt"):
				kind = "empty"
			case strings.HasPrefix(i.T.N, "z"):
				kind = "ghost"
			}
			ts = append(ts, i.Form+":"+kind+":"+i.Dec)
		}
	}
	sort.Strings(ts)
	return strings.Join(ts, ",")
}

func (c *bCase) layoutTag() string {
	var ss []string
	for _, s := range c.Sent {
		ss = append(ss, "/"+strings.Join(s, "/"))
	}
	sort.Strings(ss)
	var es []string
	for _, e := range c.Edges {
		for _, i := range e.Imps {
			es = append(es, e.F.rel()+" -> "+c.importSrc(e.F, i))
		}
	}
	sort.Strings(es)
	return fmt.Sprintf("go.mod at %v; main %s; imports %v", ss, c.Main.rel(), es)
}

func init() {
	handlers["bundle"] = handleBundle
	props["C15"] = func(rc *RunCtx) int {
		rep := NewReport("C15", rc.Tier, rc.Seed, "model_checking")
		rep.Rule = "TLC enumerates module layouts of the Bundle spec: go.mod sentinels on none / one / two (nested or side by side) of the directories of a four-directory tree, the main file at any depth, and an import graph of up to MaxEdges edges whose edges are relative (./p) or module-rooted (/p), target a script, a JSON data file (implicit, explicit json, explicit bytes decoder), an empty data file or a file that does not exist, incl. chains, fans and diamonds; TLC checks that the bundler's host-path -> archive-path map and the runtime's own resolution commute (Commutes), that the archive is complete (Complete) and holds nothing from outside the main root (Inside), and rejects the as-is sentinel placement (negative control). Each layout is written to disk; the main file is evaluated from source and via bundle.BundledScripts + syntax.EvaluateBundleCtx for three spellings of its path from three working directories; the bundle is run with the source tree renamed away, from another directory, on recording file systems. Compared: value (Equal and repr) or failure on both sides, the files the value mentions against the spec's resolution, the archive's entry names against the spec's Archive, and the recorded file-system operations (must be none)."
		rep.Assume = []string{"file contents are markers that name the file, so a wrongly resolved import changes the value", "remote (module / URL) imports are out of reach offline and not modelled"}
		dir := filepath.Join(verifRoot, ".work", fmt.Sprintf("bundle-%d", os.Getpid()))
		for p := dir; p != "/" && p != "."; p = filepath.Dir(p) {
			if _, err := os.Stat(filepath.Join(p, "go.mod")); err == nil {
				infraFail("C15: %s has a go.mod above the scratch workspace; layouts without a module cannot be built there", p)
			}
		}
		if err := os.MkdirAll(dir, 0o755); err != nil {
			infraFail("C15: %v", err)
		}
		defer os.RemoveAll(dir)
		os.Setenv("VERIF_BUNDLE_DIR", dir)
		if rc.Replay == "" {
			st := runTLCPlain(&TLCRun{Module: "Bundle", Cfg: "Bundle_asis.cfg", Workers: 4, Timeout: 10 * 60e9})
			if !strings.Contains(strings.Join(st.Errors, "\n"), "Commutes") {
				infraFail("C15: negative control Bundle_asis.cfg: TLC did not report Commutes violated\n%s", strings.Join(st.Tail, "\n"))
			}
			fmt.Printf("  tlc Bundle Bundle_asis.cfg: Commutes violated as expected (negative control)\n")
			rep.Extra["negative_control_Bundle_asis.cfg"] = "Commutes rejected by TLC as expected"
		}
		runs := []*TLCRun{{Module: "Bundle", Cfg: tierPick(rc.Tier, "Bundle_quick.cfg", "Bundle_thorough.cfg"), Timeout: 60 * 60e9}}
		if rc.Tier == "thorough" {
			runs = append(runs, &TLCRun{Module: "Bundle", Cfg: "Bundle_deep.cfg", Simulate: "num=30000", Depth: 8, Seed: rc.Seed, Workers: 1, Timeout: 60 * 60e9})
		}
		runTLCToPool(rep, rc, runs, &Pool{Handler: "bundle"})
		return rep.Finish()
	}
}
