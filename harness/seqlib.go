package main

// Replay of SeqLib cases (C14): every abstract case in three representations.

import (
	"encoding/json"
	"fmt"
	"strings"

	"github.com/arr-ai/arrai/rel"
)

type seqCase struct {
	C struct {
		K   string          `json:"k"`
		P   []int           `json:"p"`
		S   []int           `json:"s"`
		Old []int           `json:"old"`
		New []int           `json:"new"`
		R   json.RawMessage `json:"r"`
	} `json:"c"`
}

var seqReprs = []string{"str", "bytes", "arr"}

func seqAV(q []int, repr string) *AV {
	elems := make([]*AV, len(q))
	for i, k := range q {
		switch repr {
		case "str":
			elems[i] = Tup(map[string]*AV{"at": Num(float64(i)), "ch": Num(float64(96 + k))})
		case "bytes":
			elems[i] = Tup(map[string]*AV{"at": Num(float64(i)), "by": Num(float64(96 + k))})
		default:
			elems[i] = Tup(map[string]*AV{"at": Num(float64(i)), "it": Num(float64(k))})
		}
	}
	return SetOf(elems...)
}

func seqsAV(qs [][]int, repr string) *AV {
	elems := make([]*AV, len(qs))
	for i, q := range qs {
		elems[i] = Tup(map[string]*AV{"at": Num(float64(i)), "it": seqAV(q, repr)})
	}
	return SetOf(elems...)
}

func seqValue(q []int, repr string) rel.Value {
	if len(q) == 0 {
		return rel.None
	}
	switch repr {
	case "str":
		rs := make([]rune, len(q))
		for i, k := range q {
			rs[i] = rune(96 + k)
		}
		return rel.NewString(rs)
	case "bytes":
		bs := make([]byte, len(q))
		for i, k := range q {
			bs[i] = byte(96 + k)
		}
		return rel.NewBytes(bs)
	}
	vs := make([]rel.Value, len(q))
	for i, k := range q {
		vs[i] = rel.NewNumber(float64(k))
	}
	return rel.NewArray(vs...)
}

func seqSrc(q []int, repr string) string { return seqAV(q, repr).RenderSugar() }

// decode a TLA+ sequence-or-unspec field
func decSeq(m json.RawMessage) (q []int, unspec bool) {
	if strings.Contains(string(m), "unspec") {
		return nil, true
	}
	if err := json.Unmarshal(m, &q); err != nil {
		panic(fmt.Sprintf("bad sequence %s", m))
	}
	return q, false
}
func decSeqs(m json.RawMessage) (qs [][]int, unspec bool) {
	if strings.Contains(string(m), "unspec") {
		return nil, true
	}
	if err := json.Unmarshal(m, &qs); err != nil {
		panic(fmt.Sprintf("bad sequences %s", m))
	}
	return qs, false
}

// abstractOf maps a result back to a representation-independent form for correspondence checks.
func abstractOf(o Outcome, repr string) string {
	if o.Kind() != "value" {
		return o.Kind()
	}
	var a *AV
	if _, _, p := catch(func() { a, _ = Denote(o.V) }); p {
		return "panic"
	}
	return abstractAV(a)
}

func abstractAV(a *AV) string {
	if a.K == 'n' {
		return fnum(a.N)
	}
	if a.K != 's' {
		return a.Canon()
	}
	kind, off, items, ok := a.seqView()
	if len(a.S) == 0 {
		return "[]"
	}
	if !ok {
		return a.Canon()
	}
	parts := make([]string, len(items))
	for i, it := range items {
		switch {
		case it == nil:
			parts[i] = "_"
		case kind == "ch" || kind == "by":
			parts[i] = fnum(it.N - 96)
		default:
			parts[i] = abstractAV(it)
		}
	}
	s := "[" + strings.Join(parts, ",") + "]"
	if off != 0 {
		s = fmt.Sprintf("%d\\%s", off, s)
	}
	return s
}

func init() {
	handlers["seqlib"] = handleSeqLib
	props["C14"] = func(rc *RunCtx) int {
		rep := NewReport("C14", rc.Tier, rc.Seed, "model_checking")
		rep.Rule = "TLC enumerates ALL (pattern, subject) pairs and ALL (old, new, subject) triples of sequences over a 2-letter (thorough: 3-letter) alphabet up to the configured lengths and computes contains, has_prefix, has_suffix, trim_prefix, trim_suffix, split, join(split), join, concat, repeat and sub from textbook definitions (TLC also checks the laws join-inverts-split, contains-iff-split-splits, trim removes exactly a present prefix/suffix); each case is evaluated as string, byte array and array; results must equal the spec's, and where the spec says Unspec (empty delimiter / empty old) the three representations must still correspond. Non-trivial: subject and pattern both non-empty."
		rep.Assume = []string{"letters k map to chars/bytes 96+k and to the number k as array element", "the empty sequence is {} in every representation"}
		rep.Exhaust = true
		runTLCToPool(rep, rc, []*TLCRun{{Module: "SeqLib", Cfg: tierPick(rc.Tier, "SeqLib_quick.cfg", "SeqLib_thorough.cfg")}}, &Pool{Handler: "seqlib"})
		return rep.Finish()
	}
}

func handleSeqLib(raw json.RawMessage) *Obs {
	var cs seqCase
	if err := json.Unmarshal(raw, &cs); err != nil {
		return &Obs{Fails: []Fail{{Sig: Signature{Symptom: "bad-case"}, Detail: err.Error()}}}
	}
	obs := &Obs{}
	c := cs.C
	fail := func(op, repr string, flags []string, d diffInfo, src string) {
		obs.Fails = append(obs.Fails, Fail{Sig: Signature{Op: op, ShapeL: repr, Flags: flags, Symptom: d.symptom, Msg: d.msg, Frame: d.frame}, Detail: src + "\n" + d.detail, Source: src})
	}
	// run evaluates one function in all three representations
	run := func(op, tmpl string, args map[string][]int, lists map[string][][]int, num map[string]int, expect func(repr string) *AV, flags []string) {
		var abs []string
		for _, repr := range seqReprs {
			vars := map[string]rel.Value{}
			src := tmpl
			for k, q := range args {
				vars[k] = seqValue(q, repr)
				src = strings.ReplaceAll(src, "$"+k, seqSrc(q, repr))
			}
			for k, n := range num {
				vars[k] = rel.NewNumber(float64(n))
				src = strings.ReplaceAll(src, "$"+k, fmt.Sprint(n))
			}
			_ = lists
			t := tmpl
			for k := range vars {
				t = strings.ReplaceAll(t, "$"+k, k)
			}
			obs.Evals++
			o := evalTemplate(t, vars)
			abs = append(abs, abstractOf(o, repr))
			if e := expect(repr); e != nil {
				if d := compare(e, o); !d.ok {
					fail(op, repr, flags, d, src)
				}
			} else if o.Kind() == "panic" {
				fail(op, repr, flags, compare(EmptyAV, o), src)
			}
		}
		if expect("str") == nil && !(abs[0] == abs[1] && abs[1] == abs[2]) {
			fail(op, "cross", flags, diffInfo{symptom: "mismatch", msg: "representations-disagree",
				detail: fmt.Sprintf("string -> %s ; bytes -> %s ; array -> %s", abs[0], abs[1], abs[2])}, tmpl+fmt.Sprintf(" with %v", args))
		}
	}
	switch c.K {
	case "pair":
		var r struct {
			Contains, HasPrefix, HasSuffix bool
			TrimPrefix, TrimSuffix         []int
			Split, Joinsplit, Join2        json.RawMessage
			Concat                         []int
			Repeat                         [][]int
		}
		// TLC prints field names as written in the spec
		var rawR map[string]json.RawMessage
		json.Unmarshal(c.R, &rawR)
		json.Unmarshal(rawR["contains"], &r.Contains)
		json.Unmarshal(rawR["has_prefix"], &r.HasPrefix)
		json.Unmarshal(rawR["has_suffix"], &r.HasSuffix)
		json.Unmarshal(rawR["trim_prefix"], &r.TrimPrefix)
		json.Unmarshal(rawR["trim_suffix"], &r.TrimSuffix)
		json.Unmarshal(rawR["concat"], &r.Concat)
		json.Unmarshal(rawR["repeat"], &r.Repeat)
		obs.Key = fmt.Sprint("pair", c.P, c.S)
		if len(c.P) > 0 && len(c.S) > 0 {
			obs.NonTrivial = 1
		}
		obs.Sample = fmt.Sprintf("p = %v, s = %v as string %s / %s, bytes, array: contains, has_prefix, has_suffix, trim_*, split, join(split), join, concat, repeat", c.P, c.S, seqSrc(c.P, "str"), seqSrc(c.S, "str"))
		var flags []string
		if len(c.P) == 0 {
			flags = append(flags, "emptypat")
		}
		if len(c.S) == 0 {
			flags = append(flags, "emptysubj")
		}
		ps := map[string][]int{"p": c.P, "s": c.S}
		bool2 := func(b bool) func(string) *AV { return func(string) *AV { return BoolAV(b) } }
		seq2 := func(q []int) func(string) *AV { return func(repr string) *AV { return seqAV(q, repr) } }
		run("contains", "//seq.contains($p, $s)", ps, nil, nil, bool2(r.Contains), flags)
		run("has_prefix", "//seq.has_prefix($p, $s)", ps, nil, nil, bool2(r.HasPrefix), flags)
		run("has_suffix", "//seq.has_suffix($p, $s)", ps, nil, nil, bool2(r.HasSuffix), flags)
		run("trim_prefix", "//seq.trim_prefix($p, $s)", ps, nil, nil, seq2(r.TrimPrefix), flags)
		run("trim_suffix", "//seq.trim_suffix($p, $s)", ps, nil, nil, seq2(r.TrimSuffix), flags)
		if qs, un := decSeqs(rawR["split"]); un {
			run("split", "//seq.split($p, $s)", ps, nil, nil, func(string) *AV { return nil }, flags)
		} else {
			run("split", "//seq.split($p, $s)", ps, nil, nil, func(repr string) *AV { return seqsAV(qs, repr) }, flags)
		}
		if q, un := decSeq(rawR["joinsplit"]); un {
			run("join(split)", "//seq.join($p, //seq.split($p, $s))", ps, nil, nil, func(string) *AV { return nil }, flags)
		} else {
			run("join(split)", "//seq.join($p, //seq.split($p, $s))", ps, nil, nil, seq2(q), flags)
		}
		if q, _ := decSeq(rawR["join2"]); true {
			run("join", "//seq.join($p, [$s, $p, $s])", ps, nil, nil, seq2(q), flags)
		}
		run("concat", "//seq.concat([$p, $s, $p])", ps, nil, nil, seq2(r.Concat), flags)
		for n, q := range r.Repeat {
			run("repeat", "//seq.repeat($n, $s)", map[string][]int{"s": c.S}, nil, map[string]int{"n": n}, seq2(q), flags)
		}
	case "triple":
		var rawR map[string]json.RawMessage
		json.Unmarshal(c.R, &rawR)
		obs.Key = fmt.Sprint("triple", c.Old, c.New, c.S)
		if len(c.Old) > 0 && len(c.S) > 0 {
			obs.NonTrivial = 1
		}
		obs.Sample = fmt.Sprintf("//seq.sub(%s, %s, %s) and the same as bytes and array", seqSrc(c.Old, "str"), seqSrc(c.New, "str"), seqSrc(c.S, "str"))
		var flags []string
		if len(c.Old) == 0 {
			flags = append(flags, "emptypat")
		}
		args := map[string][]int{"old": c.Old, "new": c.New, "s": c.S}
		if q, un := decSeq(rawR["sub"]); un {
			run("sub", "//seq.sub($old, $new, $s)", args, nil, nil, func(string) *AV { return nil }, flags)
		} else {
			run("sub", "//seq.sub($old, $new, $s)", args, nil, nil, func(repr string) *AV { return seqAV(q, repr) }, flags)
		}
	}
	return obs
}
