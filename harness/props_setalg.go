package main

import "time"

func setAlgRuns(rc *RunCtx, pairs bool, chainQuick, chainThorough string) []*TLCRun {
	var runs []*TLCRun
	if pairs {
		runs = append(runs, &TLCRun{Module: "MC_SetAlgebra", Cfg: tierPick(rc.Tier, "SetAlgebra_quick.cfg", "SetAlgebra_thorough.cfg"), Timeout: 40 * time.Minute})
	}
	runs = append(runs, &TLCRun{Module: "MC_SetAlgebra", Cfg: "SetAlgebra_chain.cfg", Simulate: tierPick(rc.Tier, chainQuick, chainThorough),
		Depth: 7, Seed: rc.Seed + 1, Workers: 1, Timeout: 30 * time.Minute})
	return runs
}

var setAlgAssume = []string{"TLC's evaluation of finite-set operators is the oracle", "denotation is read through Enumerator/Count/Has of the public rel API",
	"renderer (abstract value -> source) is checked by the literal-level comparison of every recipe against the spec value"}

func init() {
	props["C01"] = func(rc *RunCtx) int {
		rep := NewReport("C01", rc.Tier, rc.Seed, "model_checking")
		rep.Rule = "TLC enumerates every ordered pair of literals (subsets of the element pool up to MaxLit members) and, per pair, the exact result of every set-algebra operator; chains of derived steps are simulated. Each pair is realised in the real code through several recipe pairs (sugar literal, explicit tuples, reversed, with-chain, union of singletons, where-filtered superset, identity map, relation literal, rel API). A case is non-trivial when both operands are non-empty and different; distinct = distinct (a, b) denotations / distinct programs."
		rep.Assume = setAlgAssume
		rep.Exhaust = true
		runTLCToPool(rep, rc, setAlgRuns(rc, true, "num=1500", "num=60000"), &Pool{Handler: "setalg-c01"})
		return rep.Finish()
	}
	props["C02"] = func(rc *RunCtx) int {
		rep := NewReport("C02", rc.Tier, rc.Seed, "model_checking")
		rep.Rule = "same SetAlgebra model; for every ordered pair of literals the spec says whether they are the same value (TLA+ =), and every pair of recipes of the two sides is observed at every observation point of the property (=, !=, {a,b} count, with, <:, dict key lookup, dict with both keys, //str.repr, tuple and set wrapping, &); in chains every pair of bindings is compared. The Nesting spec adds, for every literal c of up to two pool elements, all ordered pairs of the family {c, {c}, c + {{}}, {c, {}}, {{c}}, {c + {{}}}} - values that differ only in nesting and hash alike under a non-mixing container hash. Non-trivial: both sides non-empty."
		rep.Assume = setAlgAssume
		rep.Exhaust = true
		runTLCToPool(rep, rc, setAlgRuns(rc, true, "num=1500", "num=40000"), &Pool{Handler: "setalg-c02"})
		if rc.Replay == "" {
			// structural near-misses (Nesting spec): values that differ only in how their members are nested
			runTLCToPool(rep, rc, []*TLCRun{{Module: "Nesting", Cfg: "Nesting.cfg", Timeout: 20 * time.Minute}}, &Pool{Handler: "setalg-nest"})
		}
		return rep.Finish()
	}
	props["C03"] = func(rc *RunCtx) int {
		rep := NewReport("C03", rc.Tier, rc.Seed, "model_checking")
		rep.Rule = "branching derivation histories from the SetAlgebra and Keyed models: the spec's env is append-only (TLC checks AppendOnly); the replay keeps every live Go value and re-reads the denotation of every earlier binding after every later step (half of the histories step through the rel API directly, half through compiled operators). Non-trivial: every history (all have >= 3 derivations)."
		rep.Assume = setAlgAssume
		runs := setAlgRuns(rc, false, "num=4000", "num=150000")
		// exhaustive branching histories: one parent, three with/without derivations of it or of its derivatives
		runs = append(runs, &TLCRun{Module: "MC_SetAlgebra", Cfg: tierPick(rc.Tier, "SetAlgebra_branchq.cfg", "SetAlgebra_brancht.cfg"), Timeout: 40 * time.Minute})
		runs = append(runs, keyedRuns(rc, "num=4000", "num=150000")...)
		// exhaustive branching ++ histories over dense zero-based strings, byte arrays and arrays
		runs = append(runs, &TLCRun{Module: "Keyed", Cfg: tierPick(rc.Tier, "Keyed_branchq.cfg", "Keyed_brancht.cfg"), Timeout: 40 * time.Minute})
		// join / nest / unnest chains whose operands are earlier results
		runs = append(runs, &TLCRun{Module: "Relational", Cfg: "Relational_chain3.cfg", Simulate: tierPick(rc.Tier, "num=3000", "num=100000"), Depth: 7, Seed: rc.Seed + 5, Workers: 1})
		// fork histories: P = A <&> B, X = P <&> C, Y = P <&> D over all one-row relations on two-attribute headings
		runs = append(runs, &TLCRun{Module: "Relational", Cfg: tierPick(rc.Tier, "Relational_forkq.cfg", "Relational_forkt.cfg")})
		runTLCToPool(rep, rc, runs, &Pool{Handler: "multi-c03"})
		return rep.Finish()
	}
}
