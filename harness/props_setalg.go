package main

import "time"

func init() {
	props["C01"] = func(rc *RunCtx) int {
		rep := NewReport("C01", rc.Tier, rc.Seed, "model_checking")
		rep.Rule = "TLC enumerates every ordered pair of literals (subsets of the element pool up to MaxLit members) and, per pair, the exact result of every set-algebra operator; chains of derived steps are simulated. Each pair is realised in the real code through several recipe pairs (sugar literal, explicit tuples, reversed, with-chain, union of singletons, where-filtered superset, identity map, relation literal, rel API). A case is non-trivial when both operands are non-empty and different; distinct = distinct (a, b) denotations / distinct programs."
		rep.Assume = []string{"TLC's evaluation of finite-set operators is the oracle", "denotation is read through Enumerator/Count/Has of the public rel API", "renderer (abstract value -> source) is checked by the literal-level comparison of every recipe against the spec value"}
		runs := []*TLCRun{
			{Module: "MC_SetAlgebra", Cfg: tierPick(rc.Tier, "SetAlgebra_quick.cfg", "SetAlgebra_thorough.cfg"), Timeout: 40 * time.Minute},
			{Module: "MC_SetAlgebra", Cfg: "SetAlgebra_chain.cfg", Simulate: tierPick(rc.Tier, "num=1500", "num=60000"), Depth: 6, Seed: rc.Seed + 1, Workers: 1, Timeout: 30 * time.Minute},
		}
		rep.Exhaust = true
		runTLCToPool(rep, rc, runs, &Pool{Handler: "setalg-c01"})
		return rep.Finish()
	}
}
