package main

// Beyond the listed properties: the interactive shell against the ShellSession spec.

import (
	"context"
	"encoding/json"
	"fmt"
	"sort"
	"strings"

	"github.com/arr-ai/arrai/pkg/arraictx"
	"github.com/arr-ai/arrai/pkg/shell"
	"github.com/arr-ai/arrai/rel"
)

type ssStep struct {
	Text   []string        `json:"text"`
	Kind   string          `json:"kind"`
	R      string          `json:"r"`
	NLines int             `json:"nlines"`
	Depth  int             `json:"depth"`
	Names  []string        `json:"names"`
	Vals   json.RawMessage `json:"vals"`
}

func handleShellSession(raw json.RawMessage) *Obs {
	var c struct {
		Steps []ssStep `json:"steps"`
	}
	if err := json.Unmarshal(raw, &c); err != nil {
		return &Obs{Fails: []Fail{{Sig: Signature{Symptom: "bad-case"}, Detail: err.Error()}}}
	}
	obs := &Obs{NonTrivial: 1}
	s, err := shell.NewVerifSession()
	if err != nil {
		return &Obs{Fails: []Fail{{Sig: Signature{Symptom: "setup"}, Detail: err.Error()}}}
	}
	defer s.Close()
	ctx := arraictx.InitRunCtx(context.Background())
	var typed []string
	for i, st := range c.Steps {
		line := strings.Join(st.Text, "")
		typed = append(typed, line)
		obs.Evals++
		var lerr error
		msg, frame, panicked := catch(func() { lerr = s.Line(ctx, line) })
		fail := func(symptom, m, detail string) {
			obs.Fails = append(obs.Fails, Fail{Sig: Signature{Op: st.Kind, Symptom: symptom, Msg: m, Frame: frame},
				Detail: fmt.Sprintf("session: %q\nafter line %d: %s", typed, i+1, detail)})
		}
		if panicked {
			fail("panic", classifyMsg(msg), trunc(msg, 300))
			return obs
		}
		lines, depth := s.Pending()
		if len(lines) != st.NLines || depth != st.Depth {
			fail("collector-differs", fmt.Sprintf("lines=%d,depth=%d", len(lines), depth), fmt.Sprintf("the shell holds %d collected line(s) with %d open delimiter(s); the spec says %d and %d", len(lines), depth, st.NLines, st.Depth))
			return obs
		}
		switch st.R {
		case "wait":
			if lerr != nil {
				fail("unexpected-error", "while-collecting", safeSprint(lerr))
				return obs
			}
		case "ok":
			if lerr != nil {
				fail("unexpected-error", "should-succeed", trunc(safeSprint(lerr), 300))
				return obs
			}
		case "error":
			if lerr == nil {
				fail("unexpected-value", "should-fail", "the line was accepted")
				return obs
			}
		case "any":
			obs.Notes = append(obs.Notes, "unmodelled-submission")
			return obs // what such a text evaluates to is not modelled: the session is not followed further
		}
		// the scope: exactly the spec's names (besides the library) with the spec's values
		var got []string
		vals := map[string]string{}
		for e := s.Scope().Enumerator(); e.MoveNext(); {
			n, x := e.Current()
			if n == "//" {
				continue
			}
			got = append(got, n)
			if v, is := x.(rel.Value); is {
				vals[n] = reprSafe(v)
			} else {
				vals[n] = fmt.Sprint(x)
			}
		}
		sort.Strings(got)
		want := append([]string(nil), st.Names...)
		sort.Strings(want)
		if !equalStrings(got, want) {
			fail("scope-differs", "names", fmt.Sprintf("names bound in the shell: %v; in the spec: %v", got, want))
			return obs
		}
		var wantVals map[string]int
		if json.Unmarshal(st.Vals, &wantVals) == nil {
			for n, v := range wantVals {
				if vals[n] != fmt.Sprint(v) {
					fail("scope-differs", "value", fmt.Sprintf("%s is %s in the shell, %d in the spec", n, vals[n], v))
					return obs
				}
			}
		}
	}
	obs.Notes = append(obs.Notes, "followed-to-the-end")
	return obs
}

func init() {
	handlers["shellsession"] = handleShellSession
	props["X01"] = func(rc *RunCtx) int {
		rep := NewReport("X01", rc.Tier, rc.Seed, "model_checking")
		rep.Rule = "ShellSession spec (beyond the listed properties): TLC checks StackShape, NoStuck, ResetOnSubmit on every state and FailedKeepsScope / UnsetRemoves on every step; every behaviour is replayed line by line through the shell's own parseCmd (hook pkg/shell/verif_on.go) and the collected lines, the open-delimiter depth, the bound names and their values and error / no error are compared after every line. Pools: every line of 1..3 characters over a 12-character delimiter alphabet (one line), and sessions of up to 4 lines over /set, /unset, unknown and malformed commands, expressions, blank lines and a two-line /set."
		seen := map[string]bool{}
		dedup := func(c []byte, o *Obs) {
			rep.Add(c, o)
		}
		_ = seen
		runs := []*TLCRun{{Module: "ShellSession", Cfg: "ShellSession_delims.cfg"}, {Module: "ShellSession", Cfg: "ShellSession_session.cfg"}}
		for _, r := range runs {
			r.Timeout = 30 * 60e9
		}
		if rc.Replay == "" {
			st := runTLCPlain(&TLCRun{Module: "ShellSession", Cfg: "ShellSession_props.cfg", Workers: 8, Timeout: 20 * 60e9})
			st.RequireClean("X01 ShellSession_props.cfg")
			rep.TLC = append(rep.TLC, st)
			fmt.Printf("  tlc ShellSession ShellSession_props.cfg: %d distinct states, invariants and step properties hold\n", st.Distinct)
		}
		pool := &Pool{Handler: "shellsession"}
		if rc.Replay != "" {
			pool.Run(replayCases(rc.Replay), dedup)
			return rep.Finish()
		}
		runTLCToPool(rep, rc, runs, pool)
		return rep.Finish()
	}
}
