package main

// C18: sandboxed evaluation against the Sandbox spec.

import (
	"context"
	"encoding/json"
	"fmt"
	"net"
	"net/http"
	"os"
	"path/filepath"
	"sort"
	"strings"
	"sync/atomic"
	"time"

	"github.com/arr-ai/arrai/rel"
	"github.com/arr-ai/arrai/syntax"
)

type sbProg struct {
	K    string  `json:"k"`
	P    string  `json:"p"`
	N    string  `json:"n"`
	M    string  `json:"m"`
	I    int     `json:"i"`
	A    *sbProg `json:"a"`
	Lib  string  `json:"lib"`
	Bind *sbProg `json:"bind"`
}

type sbLib struct {
	Base, Os, Str, Net, Dep, Eval string
}

type sbCase struct {
	Cfg struct {
		Lib sbLib    `json:"lib"`
		Sc  []string `json:"sc"`
	} `json:"cfg"`
	Prog    sbProg   `json:"prog"`
	Ok      bool     `json:"ok"`
	Caps    []string `json:"caps"`
	Granted []string `json:"granted"`
	Imp     bool     `json:"imp"`
}

// syntactic positions: %s is the placed expression; every one of them is transparent in the spec
var sbPositions = []string{
	`(%s)`,
	`(\z %s)(0)`,
	`let z = %s; z`,
	`let z = 0; %s`,
	`(a: %s).a`,
	`[%s](0)`,
	`{"j": %s}("j")`,
	`cond {true: %s, _: 0}`,
	`cond 1 {1: %s, _: 0}`,
	`let (a: z) = (a: %s); z`,
	`let [z] = [%s]; z`,
	`let {"j": z} = {"j": %s}; z`,
	`let (a?: z:%s) = (); z`,
	`let {"j"?: z:%s, "i": y} = {"i": 0}; z`,
	`let [?z:%s] = []; z`,
	`0 -> %s`,
	`0 -> \z %s`,
	`{0} => %s`,
	`[0] >> %s`,
	`(a: 0) :> %s`,
	`(\(a: z) z)((a: %s))`,
	`{%s} single`,
	`().a?:%s`,
	`(a: %s)`,
	`[%s]`,
	`{"j": %s}`,
	`{%s}`,
	`let rec z = \q %s; z(0)`,
	`[0] >>> \i \z %s`,
	`{(a: 0)} => (b: %s)`,
	`{0: %s}`,
	`(\s \q %s)(0)(0)`,
	`cond (a: 1) {(a: z): %s}`,
	`(\[?z:%s] z)([])`,
	`let w = \(a?: z:%s) z; w(())`,
	`{|a| (0)} nest |a|n => %s`,
	`[1] => %s`,
	`let w = \y \z %s; w(0)(0)`,
}

func (p *sbProg) render() string {
	switch p.K {
	case "lit":
		return "1"
	case "ref":
		return "//" + p.P
	case "name":
		return p.N
	case "call":
		return p.N + "(0)"
	case "imp":
		if p.M == "data" {
			return "//[//encoding.bytes]{./secret.txt}"
		}
		return "//{./" + p.M + "}"
	case "pos":
		return fmt.Sprintf(sbPositions[(p.I-1)%len(sbPositions)], p.A.render())
	case "macs":
		return `{:(@grammar: m, @transform: (x: \ast ` + p.A.render() + `)): a :}`
	case "macl":
		return `{:(@grammar: {://grammar.lang.wbnf: x -> "a"; :}, @transform: (x: \ast ` + p.A.render() + `)): a :}`
	case "value":
		return "//eval.value(" + quoteStr(p.A.render(), '"') + ")"
	case "eval":
		return "//eval.eval(" + quoteStr(p.A.render(), '"') + ")"
	case "evr":
		var parts []string
		switch p.Lib {
		case "absent":
		case "empty":
			parts = append(parts, "stdlib: ()")
		case "safe":
			parts = append(parts, "stdlib: //std.safe")
		default:
			parts = append(parts, "stdlib: ("+p.Lib+": //"+p.Lib+")")
		}
		if p.Bind != nil && p.Bind.K != "none" {
			parts = append(parts, "scope: (k: "+p.Bind.render()+")")
		}
		return "//eval.evaluator((" + strings.Join(parts, ", ") + ")).eval(" + quoteStr(p.A.render(), '"') + ")"
	}
	panic("bad program kind " + p.K)
}

func (p *sbProg) atomTag() string {
	for p.A != nil {
		p = p.A
	}
	return p.tag()
}

// the evaluation routes from the outside in, positions left out
func (p *sbProg) routeTag() string {
	var rs []string
	pos := false
	for ; p != nil; p = p.A {
		switch p.K {
		case "value", "eval", "macs", "macl":
			rs = append(rs, p.K)
		case "evr":
			rs = append(rs, "evr("+p.Lib+")")
		case "pos":
			pos = true
		}
	}
	t := strings.Join(rs, ">")
	if pos {
		t += "+pos"
	}
	return t
}

func (p *sbProg) tag() string {
	switch p.K {
	case "lit", "name", "call":
		return p.K
	case "ref":
		return "ref:" + p.P
	case "imp":
		return "imp:" + p.M
	case "pos":
		return fmt.Sprintf("pos%d>%s", p.I, p.A.tag())
	case "evr":
		b := ""
		if p.Bind != nil && p.Bind.K != "none" {
			b = "+bind"
		}
		return "evr(" + p.Lib + b + ")>" + p.A.tag()
	}
	return p.K + ">" + p.A.tag()
}

var sbScopeSrc = map[string]string{"m": `{://grammar.lang.wbnf: x -> "a"; :}`, "f": "//os.file", "g": `\x //net.http.get`, "h": `\x //str.lower`, "v": "//eval.value"}

// the caller's configuration; "" means //eval.eval (no configuration)
func (c *sbCase) configSrc() (string, bool) {
	l := c.Cfg.Lib
	var parts []string
	if l.Base != "absent" {
		base := "()"
		if l.Base == "safe" {
			base = "//std.safe"
		}
		var ov []string
		switch l.Os {
		case "cwd":
			ov = append(ov, "os: (cwd: //os.cwd)")
		case "file":
			ov = append(ov, "os: (file: //os.file)")
		case "full":
			ov = append(ov, "os: //os")
		}
		if l.Str == "yes" {
			ov = append(ov, "str: //str")
		}
		if l.Net == "yes" {
			ov = append(ov, "net: //net")
		}
		if l.Dep == "yes" {
			ov = append(ov, "deprecated: //deprecated")
		}
		switch l.Eval {
		case "full":
			ov = append(ov, "eval: //eval")
		case "safe":
			ov = append(ov, "eval: //std.safe.eval")
		case "only":
			ov = append(ov, "eval: (eval: //eval.eval, evaluator: //eval.evaluator)")
		}
		if len(ov) > 0 {
			base += " +> (" + strings.Join(ov, ", ") + ")"
		}
		parts = append(parts, "stdlib: "+base)
	}
	if len(c.Cfg.Sc) > 0 {
		sc := append([]string(nil), c.Cfg.Sc...)
		sort.Strings(sc)
		var bs []string
		for _, n := range sc {
			bs = append(bs, n+": "+sbScopeSrc[n])
		}
		parts = append(parts, "scope: ("+strings.Join(bs, ", ")+")")
	}
	return "(" + strings.Join(parts, ", ") + ")", len(parts) == 0
}

// ---- capability probe ---------------------------------------------------------------------------

type sbProbe struct {
	dir, canaryPath, script, marker, url string
	hits                                 int32
	memo                                 map[*rel.NativeFunction]map[string]bool
	calls                                int
}

const sbCanary = "CANARY-7f3a9c"

var sbP *sbProbe

func sbInit() {
	dir := os.Getenv("VERIF_SBX")
	if dir == "" {
		fmt.Fprintln(os.Stderr, "VERIF_SBX not set")
		os.Exit(3)
	}
	if err := os.Chdir(dir); err != nil {
		fmt.Fprintln(os.Stderr, err)
		os.Exit(3)
	}
	p := &sbProbe{dir: dir, canaryPath: filepath.Join(dir, "secret.txt"), script: filepath.Join(dir, "mark.sh"),
		marker: filepath.Join(dir, fmt.Sprintf("marker-%d", os.Getpid())), memo: map[*rel.NativeFunction]map[string]bool{}}
	l, err := net.Listen("tcp", "127.0.0.1:0")
	if err == nil {
		p.url = "http://" + l.Addr().String() + "/probe"
		go http.Serve(l, http.HandlerFunc(func(w http.ResponseWriter, r *http.Request) { //nolint:errcheck
			atomic.AddInt32(&p.hits, 1)
			fmt.Fprint(w, "pong")
		}))
	}
	http.DefaultClient.Timeout = 2 * time.Second
	sbP = p
}

func sbSetupDir(dir string) {
	must := func(err error) {
		if err != nil {
			infraFail("C18 setup: %v", err)
		}
	}
	must(os.MkdirAll(dir, 0o755))
	files := map[string]string{
		"go.mod": "module sbx\n", "mod_file.arrai": "//os.file\n", "mod_pure.arrai": "//str.lower\n",
		"mod_exec.arrai": "//deprecated.exec\n", "mod_lit.arrai": "1\n", "secret.txt": sbCanary + "\n",
		"mark.sh": "#!/bin/sh\n: > \"$1\"\n",
	}
	for n, c := range files {
		mode := os.FileMode(0o644)
		if n == "mark.sh" {
			mode = 0o755
		}
		must(os.WriteFile(filepath.Join(dir, n), []byte(c), mode))
	}
}

func (p *sbProbe) args() []rel.Value {
	// the canary is named relative to the working directory: a source text starting with "/" sends the
	// parser's error printer into its exponential blow-up (C10's finding), and probes also reach //eval.value
	a := []rel.Value{rel.NewString([]rune("secret.txt")), rel.EmptyTuple,
		rel.NewArray(rel.NewString([]rune(p.script)), rel.NewString([]rune(p.marker))),
		rel.NewNumber(0), rel.NewString([]rune("//os.file")), rel.NewString([]rune("//net.http.get")), rel.NewString([]rune("//deprecated.exec"))}
	if p.url != "" {
		a = append(a, rel.NewString([]rune(p.url)))
	}
	return a
}

func (p *sbProbe) walk(v rel.Value, depth int, out map[string]bool) {
	if v == nil || p.calls > 6000 {
		return
	}
	switch x := v.(type) {
	case rel.Number:
	case rel.String:
		if strings.Contains(x.String(), sbCanary) {
			out["file"] = true
		}
	case rel.Bytes:
		if strings.Contains(string(x.Bytes()), sbCanary) {
			out["file"] = true
		}
	case rel.Tuple:
		for e := x.Enumerator(); e.MoveNext(); {
			_, a := e.Current()
			p.walk(a, depth, out)
		}
	case *rel.NativeFunction:
		if depth == sbDepth {
			if m, ok := p.memo[x]; ok {
				for c := range m {
					out[c] = true
				}
				return
			}
			m := map[string]bool{}
			p.call(x, depth, m)
			p.memo[x] = m
			for c := range m {
				out[c] = true
			}
			return
		}
		p.call(x, depth, out)
	case rel.Closure:
		p.call(x, depth, out)
	case rel.Set:
		n := 0
		for e := x.Enumerator(); e.MoveNext() && n < 64; n++ {
			p.walk(e.Current(), depth, out)
		}
	}
}

const sbDepth = 3

var sbDebug = os.Getenv("VERIF_SB_DEBUG") != ""

func (p *sbProbe) call(f rel.Set, depth int, out map[string]bool) {
	if depth == 0 {
		return
	}
	for _, a := range p.args() {
		if p.calls > 6000 {
			return
		}
		p.calls++
		if sbDebug {
			_ = f
		}
		os.Remove(p.marker)
		atomic.StoreInt32(&p.hits, 0)
		var res rel.Value
		var err error
		catch(func() { res, err = rel.SetCall(sbCtx(), f, a) })
		if _, serr := os.Stat(p.marker); serr == nil {
			out["exec"] = true
			os.Remove(p.marker)
		}
		if atomic.LoadInt32(&p.hits) > 0 {
			out["net"] = true
		}
		if err == nil && res != nil {
			p.walk(res, depth-1, out)
		}
	}
}

func sbCtx() context.Context { return evalCtx }

func capList(m map[string]bool) []string {
	var out []string
	for c := range m {
		out = append(out, c)
	}
	sort.Strings(out)
	return out
}

func subsetOf(a []string, b []string) bool {
	in := map[string]bool{}
	for _, x := range b {
		in[x] = true
	}
	for _, x := range a {
		if !in[x] {
			return false
		}
	}
	return true
}

func handleSandbox(raw json.RawMessage) *Obs {
	var c sbCase
	if err := json.Unmarshal(raw, &c); err != nil {
		return &Obs{Fails: []Fail{{Sig: Signature{Symptom: "bad-case"}, Detail: err.Error()}}}
	}
	if c.Prog.K == "safelib" {
		return handleSafeLib()
	}
	if sbDebug {
		t0 := time.Now()
		defer func() { fmt.Fprintf(os.Stderr, "TIMING %d %s %s calls=%d\n", time.Since(t0).Microseconds(), c.Prog.atomTag(), c.Prog.routeTag(), sbP.calls) }()
	}
	inner := c.Prog.render()
	cfgSrc, bare := c.configSrc()
	forms := []string{"//eval.evaluator(" + cfgSrc + ").eval(" + quoteStr(inner, '"') + ")"}
	if bare {
		forms = append(forms, "//eval.eval("+quoteStr(inner, '"')+")", "//eval.eval(<<"+quoteStr(inner, '"')+">>)")
	}
	obs := &Obs{Sample: fmt.Sprintf("%s   (spec: ok=%v caps=%v granted=%v)", forms[0], c.Ok, c.Caps, c.Granted)}
	if !c.Ok || len(c.Caps) > 0 || c.Prog.K != "lit" {
		obs.NonTrivial = 1
	}
	for fi, src := range forms {
		obs.Evals++
		sbP.calls = 0
		o := evalSource(src)
		form := "evaluator"
		if fi > 0 {
			form = "eval"
		}
		fail := func(symptom, msg, detail string) {
			obs.Fails = append(obs.Fails, Fail{Sig: Signature{Op: form, ShapeL: c.Prog.atomTag(), ShapeR: c.Prog.routeTag(), Symptom: symptom, Msg: msg},
				Detail: fmt.Sprintf("%s\nprogram: %s\nspec: ok=%v caps=%v granted=%v\n%s", src, c.Prog.tag(), c.Ok, c.Caps, c.Granted, detail), Source: src})
		}
		if o.Kind() != "value" {
			if c.Ok && !c.Imp {
				obs.Notes = append(obs.Notes, "refused-what-the-spec-allows")
				if len(obs.Notes) == 1 {
					obs.Notes = append(obs.Notes, "refused:"+c.Prog.tag())
				}
			} else if c.Ok {
				obs.Notes = append(obs.Notes, "import-refused")
			} else {
				obs.Notes = append(obs.Notes, "failed-as-required")
			}
			continue
		}
		got := map[string]bool{}
		sbP.walk(o.V, sbDepth, got)
		caps := capList(got)
		switch {
		case !subsetOf(caps, c.Granted):
			fail("capability-escape", "obtained-"+strings.Join(caps, "+"), fmt.Sprintf("the value that came back conveys %v; the configuration granted %v\nvalue: %s", caps, c.Granted, trunc(reprSafe(o.V), 200)))
		case !c.Ok:
			fail("ungranted-reference-resolved", "should-fail", fmt.Sprintf("the spec requires this evaluation to fail (it refers to something outside the configuration); it produced %s", trunc(reprSafe(o.V), 200)))
		case !subsetOf(caps, c.Caps):
			obs.Notes = append(obs.Notes, "caps-within-grant-beyond-spec")
		case !subsetOf(c.Caps, caps):
			obs.Notes = append(obs.Notes, "caps-below-spec")
		default:
			obs.Notes = append(obs.Notes, "agrees")
		}
	}
	return obs
}

// every callable member of the real safe library, probed: none may read the canary file, run the
// marker script or reach the loopback listener
func handleSafeLib() *Obs {
	obs := &Obs{NonTrivial: 1}
	lib := syntax.SafeStdScopeTuple()
	var visit func(path string, v rel.Value)
	visit = func(path string, v rel.Value) {
		if t, ok := v.(rel.Tuple); ok {
			for e := t.Enumerator(); e.MoveNext(); {
				n, a := e.Current()
				visit(path+"."+n, a)
			}
			return
		}
		obs.Evals++
		got := map[string]bool{}
		sbP.calls = 0
		sbP.walk(v, sbDepth, got)
		if len(got) > 0 {
			obs.Fails = append(obs.Fails, Fail{Sig: Signature{Op: "safelib", ShapeL: strings.TrimPrefix(path, "."), Symptom: "capability-in-safe-library", Msg: "conveys-" + strings.Join(capList(got), "+")},
				Detail: fmt.Sprintf("//%s in the safe library conveys %v (probed by calling it with a canary file path, a marker script, a loopback URL)", strings.TrimPrefix(path, "."), capList(got))})
		}
	}
	for e := lib.Enumerator(); e.MoveNext(); {
		n, a := e.Current()
		if n == "std" {
			continue // //std.safe is the same tuple again
		}
		visit(n, a)
	}
	obs.Sample = fmt.Sprintf("safe library: %d members probed", obs.Evals)
	return obs
}

func init() {
	handlers["sandbox"] = handleSandbox
	handlerInit["sandbox"] = sbInit
	props["C18"] = func(rc *RunCtx) int {
		rep := NewReport("C18", rc.Tier, rc.Seed, "model_checking")
		rep.Rule = "TLC enumerates (caller configuration, sandboxed program) pairs of the Sandbox spec: configurations are sub-tuples of the full library (absent = the safe default; bases () and //std.safe; os / str / net / deprecated / eval subtrees overridden or withheld, eval in its full, safe and value-less forms) with scopes binding a number, //os.file, closures over //net.http.get and //str.lower, and the full //eval.value; programs are a reference (to members, subtrees, //std.safe.* paths, scope names, calls of closures, imports of module files and of raw file data) wrapped up to Steps times in evaluation routes (//eval.value, //eval.eval, //eval.evaluator with 7 inner libraries x 7 inner scope bindings) and in 38 syntactic positions (lambda bodies, let, cond, tuple / array / dict patterns and their fallbacks, arrows, comprehensions, nest, fix). The spec computes whether the evaluation must fail and which of the capabilities file / net / exec the result may convey, and TLC checks Confined, SafeClean and UngrantedFails on every state. Each case runs through the real //eval.evaluator(config).eval (and //eval.eval for the bare configuration); what comes back is walked and every callable in it is called (3 levels deep) with a canary file path, a marker script, a loopback URL and escape sources, which measures the capabilities it conveys. A separate case probes every member of the real safe library the same way. Violation: a capability outside the configuration's grant, or a value where the spec requires failure. Two as-is configurations (FallbackFullStd, ExecInSafe) are negative controls TLC must reject."
		rep.Assume = []string{"capabilities are file reading, network access and command execution as measured by the probe", "an import inside the sandbox may be refused outright (the spec allows either refusal or evaluation within the sandbox's library)", "a refusal of something the spec allows is counted, not a violation"}
		dir := filepath.Join(verifRoot, ".work", fmt.Sprintf("sbx-%d", os.Getpid()))
		sbSetupDir(dir)
		defer os.RemoveAll(dir)
		os.Setenv("VERIF_SBX", dir)
		if rc.Replay != "" {
			(&Pool{Handler: "sandbox"}).Run(replayCases(rc.Replay), rep.Add)
			return rep.Finish()
		}
		// negative controls: the as-is deviations must be rejected by TLC
		for _, cfg := range []string{"Sandbox_asis_FallbackFullStd.cfg", "Sandbox_asis_ExecInSafe.cfg"} {
			want := map[string]string{"Sandbox_asis_FallbackFullStd.cfg": "Confined", "Sandbox_asis_ExecInSafe.cfg": "SafeClean"}[cfg]
			st := runTLCPlain(&TLCRun{Module: "Sandbox", Cfg: cfg, Workers: 4, Timeout: 10 * 60e9})
			if !strings.Contains(strings.Join(st.Errors, "\n"), want) {
				infraFail("C18: negative control %s: TLC did not report %s violated\n%s", cfg, want, strings.Join(st.Tail, "\n"))
			}
			fmt.Printf("  tlc Sandbox %s: %s violated as expected (negative control)\n", cfg, want)
			rep.Extra["negative_control_"+cfg] = want + " rejected by TLC as expected"
		}
		one := make(chan []byte, 1)
		one <- []byte(`{"prog":{"k":"safelib"}}`)
		close(one)
		(&Pool{Handler: "sandbox", N: 1}).Run(one, rep.Add)
		runs := []*TLCRun{
			{Module: "Sandbox", Cfg: tierPick(rc.Tier, "Sandbox_routesQ.cfg", "Sandbox_routesT.cfg"), Timeout: 60 * 60e9},
			{Module: "Sandbox", Cfg: tierPick(rc.Tier, "Sandbox_posQ.cfg", "Sandbox_posT.cfg"), Timeout: 60 * 60e9},
			{Module: "Sandbox", Cfg: "Sandbox_sim.cfg", Simulate: tierPick(rc.Tier, "num=3000", "num=60000"), Depth: 8, Seed: rc.Seed, Workers: 1, Timeout: 60 * 60e9},
		}
		runTLCToPool(rep, rc, runs, &Pool{Handler: "sandbox"})
		allowed := rep.NoteCounts["agrees"] + rep.NoteCounts["caps-below-spec"] + rep.NoteCounts["refused-what-the-spec-allows"]
		if r := rep.NoteCounts["refused-what-the-spec-allows"]; allowed > 0 && r*20 > allowed {
			infraFail("C18: %d of %d evaluations the spec allows were refused by the implementation: the model no longer describes it", r, allowed)
		}
		return rep.Finish()
	}
}
