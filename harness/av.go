package main

// Abstract values: the Go mirror of the TLA+ module ArraiValue.
//
//	N(k) == [n |-> k]   H(k) == [h |-> k]  (k + 1/2)   T(f) == [t |-> f]   S(x) == [s |-> x]
//	Err == [err |-> TRUE]
//
// TLC prints them with ToJson; this file parses that JSON, gives a canonical form, renders a value
// as arr.ai source in several "recipes", builds it through the rel API, and computes the
// denotation of a real rel.Value by walking only its public API.

import (
	"encoding/json"
	"fmt"
	"math"
	"sort"
	"strconv"
	"strings"

	"github.com/arr-ai/arrai/rel"
)

type AV struct {
	K byte // 'n' number, 't' tuple, 's' set, 'e' error, 'f' opaque function, '?' unknown
	N float64
	T map[string]*AV
	S []*AV // canonical order, no duplicates
	c string
}

// spec-side attribute ids -> arr.ai names.  Exotic names are ids so that TLA+ strings stay plain.
var attrName = map[string]string{
	"at": "@", "ch": "@char", "it": "@item", "by": "@byte", "va": "@value",
	"x1": "a, b", "x2": "", "x3": "1a", "x4": "a'b", "x5": "a\"b", "x6": "@foo", "x7": "a.b", "x8": " a", "x9": "é",
	"neg": "@neg", "fn": "@fn", "x0": "0",
}
var attrID = func() map[string]string {
	m := map[string]string{}
	for k, v := range attrName {
		m[v] = k
	}
	return m
}()

func specToName(id string) string {
	if n, ok := attrName[id]; ok {
		return n
	}
	return id
}
func nameToSpec(n string) string {
	if id, ok := attrID[n]; ok {
		return id
	}
	return n
}

func Num(f float64) *AV { return &AV{K: 'n', N: f} }
func Tup(m map[string]*AV) *AV {
	if m == nil {
		m = map[string]*AV{}
	}
	return &AV{K: 't', T: m}
}
func SetOf(elems ...*AV) *AV {
	seen := map[string]*AV{}
	for _, e := range elems {
		seen[e.Canon()] = e
	}
	keys := make([]string, 0, len(seen))
	for k := range seen {
		keys = append(keys, k)
	}
	sort.Strings(keys)
	out := make([]*AV, len(keys))
	for i, k := range keys {
		out[i] = seen[k]
	}
	return &AV{K: 's', S: out}
}

var ErrAV = &AV{K: 'e'}
var TrueAV = SetOf(Tup(nil))
var EmptyAV = SetOf()

func BoolAV(b bool) *AV {
	if b {
		return TrueAV
	}
	return EmptyAV
}

func ParseAV(raw json.RawMessage) (*AV, error) {
	var x interface{}
	d := json.NewDecoder(strings.NewReader(string(raw)))
	d.UseNumber()
	if err := d.Decode(&x); err != nil {
		return nil, err
	}
	return FromIface(x)
}

func MustParseAV(raw json.RawMessage) *AV {
	v, err := ParseAV(raw)
	if err != nil {
		panic(fmt.Sprintf("bad abstract value %s: %v", string(raw), err))
	}
	return v
}

func num(x interface{}) (float64, error) {
	switch n := x.(type) {
	case json.Number:
		return n.Float64()
	case float64:
		return n, nil
	}
	return 0, fmt.Errorf("not a number: %v", x)
}

func FromIface(x interface{}) (*AV, error) {
	m, ok := x.(map[string]interface{})
	if !ok {
		return nil, fmt.Errorf("abstract value must be an object, got %T", x)
	}
	if _, ok := m["err"]; ok {
		return ErrAV, nil
	}
	if n, ok := m["n"]; ok {
		f, err := num(n)
		return Num(f), err
	}
	if b, ok := m["big"]; ok { // a number beyond TLC's integers, given as decimal text
		f, err := strconv.ParseFloat(fmt.Sprint(b), 64)
		return Num(f), err
	}
	if h, ok := m["h"]; ok {
		f, err := num(h)
		return Num(f + 0.5), err
	}
	if t, ok := m["t"]; ok {
		out := map[string]*AV{}
		switch tm := t.(type) {
		case map[string]interface{}:
			for k, v := range tm {
				a, err := FromIface(v)
				if err != nil {
					return nil, err
				}
				out[k] = a
			}
		case []interface{}:
			if len(tm) != 0 {
				return nil, fmt.Errorf("tuple printed as non-empty array")
			}
		default:
			return nil, fmt.Errorf("bad tuple body %T", t)
		}
		return Tup(out), nil
	}
	if s, ok := m["s"]; ok {
		arr, ok := s.([]interface{})
		if !ok {
			return nil, fmt.Errorf("bad set body %T", s)
		}
		elems := make([]*AV, 0, len(arr))
		for _, e := range arr {
			a, err := FromIface(e)
			if err != nil {
				return nil, err
			}
			elems = append(elems, a)
		}
		return SetOf(elems...), nil
	}
	return nil, fmt.Errorf("unknown abstract value %v", m)
}

func fnum(f float64) string {
	if f == math.Trunc(f) && math.Abs(f) < 1e15 {
		return strconv.FormatInt(int64(f), 10)
	}
	return strconv.FormatFloat(f, 'g', -1, 64)
}

func (a *AV) Canon() string {
	if a.c != "" {
		return a.c
	}
	var s string
	switch a.K {
	case 'n':
		s = `{"n":` + fnum(a.N) + `}`
	case 't':
		parts := make([]string, 0, len(a.T))
		for k, v := range a.T {
			parts = append(parts, strconv.Quote(k)+":"+v.Canon())
		}
		sort.Strings(parts)
		s = `{"t":{` + strings.Join(parts, ",") + `}}`
	case 's':
		parts := make([]string, len(a.S))
		for i, v := range a.S {
			parts[i] = v.Canon()
		}
		s = `{"s":[` + strings.Join(parts, ",") + `]}`
	case 'e':
		s = `{"err":true}`
	case 'f':
		s = `{"fn":true}`
	default:
		s = `{"?":true}`
	}
	a.c = s
	return s
}

func (a *AV) Equal(b *AV) bool { return a.Canon() == b.Canon() }
func (a *AV) IsSet() bool      { return a.K == 's' }
func (a *AV) Has(e *AV) bool {
	c := e.Canon()
	for _, x := range a.S {
		if x.Canon() == c {
			return true
		}
	}
	return false
}

// ------------------------------------------------------------------------------------------------
// shape classification (used for known-finding signatures and "non-trivial" counting)

func (a *AV) attrsKey() string {
	ks := make([]string, 0, len(a.T))
	for k := range a.T {
		ks = append(ks, k)
	}
	sort.Strings(ks)
	return strings.Join(ks, ",")
}

func isInt(v *AV) bool { return v != nil && v.K == 'n' && v.N == math.Trunc(v.N) }

// seqKind reports whether tuple t is a sugar tuple: "ch", "it", "by", "va" or "".
func seqKind(t *AV) string {
	if t.K != 't' || len(t.T) != 2 || t.T["at"] == nil {
		return ""
	}
	for _, k := range []string{"ch", "it", "by", "va"} {
		if v, ok := t.T[k]; ok {
			switch k {
			case "ch", "by":
				if !isInt(t.T["at"]) || !isInt(v) || v.N < 0 {
					return ""
				}
				if k == "by" && v.N > 255 {
					return ""
				}
				if k == "ch" && (v.N > 0x10FFFF || (v.N >= 0xD800 && v.N <= 0xDFFF)) {
					return ""
				}
			case "it":
				if !isInt(t.T["at"]) {
					return ""
				}
			}
			return k
		}
	}
	return ""
}

type ShapeInfo struct {
	Class        string // empty | true | nums | str | arr | bytes | dict | rel/<heading> | tuples | sets | mixed | num | tuple
	Superimposed bool   // two sugar tuples of one kind at one index/key (anywhere inside)
	Holes        bool
	Offset       bool
	Nested       bool
	MultiDict    bool // a dictionary key with several values
	ByteGaps     bool // byte tuples whose indices are not contiguous (no representation: TODO in rel.Bytes)
}

func (a *AV) Shape() ShapeInfo {
	var si ShapeInfo
	switch a.K {
	case 'n':
		si.Class = "num"
		return si
	case 't':
		si.Class = "tuple"
		for _, v := range a.T {
			s := v.Shape()
			si.Superimposed = si.Superimposed || s.Superimposed
			si.Holes = si.Holes || s.Holes
			si.Offset = si.Offset || s.Offset
			si.ByteGaps = si.ByteGaps || s.ByteGaps
			si.MultiDict = si.MultiDict || s.MultiDict
			if v.K != 'n' {
				si.Nested = true
			}
		}
		return si
	case 'e':
		si.Class = "err"
		return si
	case 's':
	default:
		si.Class = "other"
		return si
	}
	if len(a.S) == 0 {
		si.Class = "empty"
		return si
	}
	if a.Equal(TrueAV) {
		si.Class = "true"
		return si
	}
	kinds := map[string]int{}
	idx := map[string]int{}
	type span struct {
		lo, hi float64
		n      int
	}
	spans := map[string]*span{}
	for _, e := range a.S {
		s := e.Shape()
		si.Superimposed = si.Superimposed || s.Superimposed
		si.Holes = si.Holes || s.Holes
		si.Offset = si.Offset || s.Offset
		si.ByteGaps = si.ByteGaps || s.ByteGaps
		si.MultiDict = si.MultiDict || s.MultiDict
		switch e.K {
		case 'n':
			kinds["nums"]++
		case 's':
			kinds["sets"]++
			si.Nested = true
		case 't':
			if k := seqKind(e); k != "" {
				name := map[string]string{"ch": "str", "it": "arr", "by": "bytes", "va": "dict"}[k]
				kinds[name]++
				key := k + "@" + e.T["at"].Canon()
				idx[key]++
				if idx[key] > 1 {
					if k == "va" {
						si.MultiDict = true // several values for one key: Dict supports this
					} else {
						si.Superimposed = true
					}
				}
				if k != "va" {
					sp := spans[k]
					if sp == nil {
						sp = &span{math.Inf(1), math.Inf(-1), 0}
						spans[k] = sp
					}
					sp.lo = math.Min(sp.lo, e.T["at"].N)
					sp.hi = math.Max(sp.hi, e.T["at"].N)
					if idx[key] == 1 {
						sp.n++
					}
				}
				if e.T[k].K != 'n' {
					si.Nested = true
				}
			} else {
				kinds["rel/"+e.attrsKey()]++
				for _, v := range e.T {
					if v.K != 'n' {
						si.Nested = true
					}
				}
			}
		}
	}
	for k, sp := range spans {
		if sp.lo != 0 {
			si.Offset = true
		}
		if int(sp.hi-sp.lo)+1 != sp.n {
			si.Holes = true
			if k == "by" {
				si.ByteGaps = true
			}
		}
	}
	if len(kinds) == 1 {
		for k := range kinds {
			si.Class = k
		}
	} else {
		ks := []string{}
		for k := range kinds {
			if i := strings.IndexByte(k, '/'); i >= 0 {
				k = k[:i]
			}
			ks = append(ks, k)
		}
		sort.Strings(ks)
		ks = uniq(ks)
		si.Class = "mixed(" + strings.Join(ks, "+") + ")"
	}
	return si
}

func uniq(s []string) []string {
	out := s[:0]
	for i, x := range s {
		if i == 0 || x != s[i-1] {
			out = append(out, x)
		}
	}
	return out
}

func (si ShapeInfo) Flags() []string {
	var f []string
	if si.Superimposed {
		f = append(f, "superimposed")
	}
	if si.Holes {
		f = append(f, "holes")
	}
	if si.Offset {
		f = append(f, "offset")
	}
	if si.Nested {
		f = append(f, "nested")
	}
	if si.ByteGaps {
		f = append(f, "bytegaps")
	}
	if si.MultiDict {
		f = append(f, "multidict")
	}
	return f
}

// ------------------------------------------------------------------------------------------------
// rendering to arr.ai source

func quoteAttr(n string) string {
	plain := n != ""
	for i, r := range n {
		if r == '@' && i == 0 {
			continue
		}
		if !(r == '_' || r >= 'a' && r <= 'z' || r >= 'A' && r <= 'Z' || (i > 0 && r >= '0' && r <= '9')) {
			plain = false
		}
	}
	if n == "@" {
		plain = true
	}
	if plain {
		return n
	}
	return quoteStr(n, '\'')
}

// quoteStr writes a string literal with conservative escapes only (\\, the delimiter, \n, \t);
// everything else is written raw so that the check does not depend on the escape reader
// (C12 exercises that separately).
func quoteStr(s string, q rune) string {
	var b strings.Builder
	b.WriteRune(q)
	for _, r := range s {
		switch {
		case r == q || r == '\\':
			b.WriteByte('\\')
			b.WriteRune(r)
		case r == '\n':
			b.WriteString(`\n`)
		case r == '\t':
			b.WriteString(`\t`)
		case r == '\r':
			b.WriteString(`\r`)
		case r == 0:
			b.WriteString(`\x00`)
		default:
			b.WriteRune(r)
		}
	}
	b.WriteRune(q)
	return b.String()
}

func renderNum(f float64) string {
	if f < 0 {
		return "(-" + fnum(-f) + ")"
	}
	return fnum(f)
}

// Render writes the value with explicit set-of-tuples syntax only (no sugar).
func (a *AV) Render() string { return a.render(false, false) }

// RenderSugar uses string/array/bytes/dict literals wherever the value allows it.
func (a *AV) RenderSugar() string { return a.render(true, false) }

// RenderRev is Render with the members of every set written in reverse canonical order.
func (a *AV) RenderRev() string { return a.render(false, true) }

func (a *AV) render(sugar, rev bool) string {
	switch a.K {
	case 'n':
		return renderNum(a.N)
	case 't':
		if len(a.T) == 0 {
			return "()"
		}
		ks := make([]string, 0, len(a.T))
		for k := range a.T {
			ks = append(ks, k)
		}
		sort.Strings(ks)
		if rev {
			for i, j := 0, len(ks)-1; i < j; i, j = i+1, j-1 {
				ks[i], ks[j] = ks[j], ks[i]
			}
		}
		parts := make([]string, len(ks))
		for i, k := range ks {
			parts[i] = quoteAttr(specToName(k)) + ": " + a.T[k].render(sugar, rev)
		}
		return "(" + strings.Join(parts, ", ") + ")"
	case 's':
		if len(a.S) == 0 {
			return "{}"
		}
		if sugar {
			if s, ok := a.sugar(rev); ok {
				return s
			}
		}
		parts := make([]string, len(a.S))
		for i, e := range a.S {
			parts[i] = e.render(sugar, rev)
		}
		if rev {
			for i, j := 0, len(parts)-1; i < j; i, j = i+1, j-1 {
				parts[i], parts[j] = parts[j], parts[i]
			}
		}
		return "{" + strings.Join(parts, ", ") + "}"
	}
	return "<<unrenderable>>"
}

// seqView returns (kind, offset, items by position with nil for holes) when the set is a
// non-superimposed string/array/bytes.
func (a *AV) seqView() (kind string, off int, items []*AV, ok bool) {
	if a.K != 's' || len(a.S) == 0 {
		return
	}
	byAt := map[int]*AV{}
	lo, hi := math.MaxInt32, math.MinInt32
	for _, e := range a.S {
		k := seqKind(e)
		if k == "" || k == "va" || (kind != "" && k != kind) {
			return "", 0, nil, false
		}
		kind = k
		i := int(e.T["at"].N)
		if _, dup := byAt[i]; dup {
			return "", 0, nil, false
		}
		byAt[i] = e.T[k]
		if i < lo {
			lo = i
		}
		if i > hi {
			hi = i
		}
	}
	if hi-lo > 64 {
		return "", 0, nil, false
	}
	items = make([]*AV, hi-lo+1)
	for i, v := range byAt {
		items[i-lo] = v
	}
	return kind, lo, items, true
}

func (a *AV) sugar(rev bool) (string, bool) {
	if kind, off, items, ok := a.seqView(); ok {
		holes := false
		for _, it := range items {
			if it == nil {
				holes = true
			}
		}
		var body string
		switch kind {
		case "ch":
			if holes {
				return "", false
			}
			rs := make([]rune, len(items))
			for i, it := range items {
				rs[i] = rune(it.N)
			}
			body = quoteStr(string(rs), '"')
		case "by":
			if holes {
				return "", false
			}
			parts := make([]string, len(items))
			for i, it := range items {
				parts[i] = fnum(it.N)
			}
			body = "<<" + strings.Join(parts, ", ") + ">>"
		case "it":
			parts := make([]string, len(items))
			for i, it := range items {
				if it == nil {
					parts[i] = ""
				} else {
					parts[i] = it.render(true, rev)
				}
			}
			body = "[" + strings.Join(parts, ", ") + "]"
		}
		if off != 0 {
			return "(" + renderNum(float64(off)) + "\\" + body + ")", true
		}
		return body, true
	}
	// dict: every member an entry, keys distinct
	keys := map[string]bool{}
	parts := make([]string, 0, len(a.S))
	for _, e := range a.S {
		if seqKind(e) != "va" {
			return "", false
		}
		k := e.T["at"].Canon()
		if keys[k] {
			return "", false
		}
		keys[k] = true
		parts = append(parts, e.T["at"].render(true, rev)+": "+e.T["va"].render(true, rev))
	}
	return "{" + strings.Join(parts, ", ") + "}", true
}

// relView: all members are tuples with one non-empty heading.
func (a *AV) relView() (names []string, ok bool) {
	if a.K != 's' || len(a.S) == 0 {
		return nil, false
	}
	key := ""
	for i, e := range a.S {
		if e.K != 't' || len(e.T) == 0 {
			return nil, false
		}
		if i == 0 {
			key = e.attrsKey()
		} else if e.attrsKey() != key {
			return nil, false
		}
	}
	return strings.Split(key, ","), true
}

// RenderRel writes a relation literal {|a,b| (1,2), ...} with the heading in the given
// permutation (perm indexes the sorted heading); "" when the value is not a relation.
func (a *AV) RenderRel(perm int) string {
	names, ok := a.relView()
	if !ok {
		return ""
	}
	names = permute(names, perm)
	hs := make([]string, len(names))
	for i, n := range names {
		hs[i] = quoteAttr(specToName(n))
		if hs[i] != specToName(n) {
			return "" // the |..| heading only accepts identifiers
		}
	}
	rows := make([]string, len(a.S))
	for i, e := range a.S {
		cells := make([]string, len(names))
		for j, n := range names {
			cells[j] = e.T[n].Render()
		}
		rows[i] = "(" + strings.Join(cells, ", ") + ")"
	}
	return "{|" + strings.Join(hs, ", ") + "| " + strings.Join(rows, ", ") + "}"
}

func permute(xs []string, k int) []string {
	xs = append([]string{}, xs...)
	out := make([]string, 0, len(xs))
	for len(xs) > 0 {
		i := k % len(xs)
		k /= len(xs)
		out = append(out, xs[i])
		xs = append(xs[:i], xs[i+1:]...)
	}
	return out
}

// Recipes: ways of writing one set value in source.  Each returns "" when not applicable or
// when it would coincide with "lit".
var recipeNames = []string{"lit", "rev", "sugar", "with", "union", "where", "map", "rel", "relrev"}

func (a *AV) RenderRecipe(name string) string {
	if a.K != 's' {
		if name == "lit" {
			return a.Render()
		}
		if name == "sugar" {
			if s := a.RenderSugar(); s != a.Render() {
				return s
			}
		}
		return ""
	}
	lit := a.Render()
	switch name {
	case "lit":
		return lit
	case "rev":
		if s := a.RenderRev(); s != lit {
			return s
		}
	case "sugar":
		if s := a.RenderSugar(); s != lit {
			return s
		}
	case "with":
		if len(a.S) == 0 {
			return ""
		}
		var b strings.Builder
		b.WriteString("({}")
		for _, e := range a.S {
			b.WriteString(" with " + e.Render())
		}
		b.WriteString(")")
		return b.String()
	case "union":
		if len(a.S) < 2 {
			return ""
		}
		parts := make([]string, len(a.S))
		for i, e := range a.S {
			parts[len(a.S)-1-i] = "{" + e.Render() + "}"
		}
		return "(" + strings.Join(parts, " | ") + ")"
	case "where":
		if len(a.S) == 0 {
			return "({7777} where . != 7777)"
		}
		return "(" + lit[:len(lit)-1] + ", 7777} where . != 7777)"
	case "map":
		if len(a.S) == 0 {
			return ""
		}
		return "(" + lit + " => .)"
	case "rel":
		return a.RenderRel(0)
	case "relrev":
		if n, ok := a.relView(); ok && len(n) > 1 {
			return a.RenderRel(1)
		}
	}
	return ""
}

// ------------------------------------------------------------------------------------------------
// building through the rel API

func (a *AV) Build() rel.Value {
	switch a.K {
	case 'n':
		return rel.NewNumber(a.N)
	case 't':
		attrs := make([]rel.Attr, 0, len(a.T))
		ks := make([]string, 0, len(a.T))
		for k := range a.T {
			ks = append(ks, k)
		}
		sort.Strings(ks)
		for _, k := range ks {
			attrs = append(attrs, rel.NewAttr(specToName(k), a.T[k].Build()))
		}
		return rel.NewTuple(attrs...)
	case 's':
		vals := make([]rel.Value, len(a.S))
		for i, e := range a.S {
			vals[i] = e.Build()
		}
		return rel.MustNewSet(vals...)
	}
	panic("cannot build " + a.Canon())
}

// ------------------------------------------------------------------------------------------------
// denotation of a real value through its public API

type Anomaly struct {
	Kind string // count | dup | has
	Msg  string
}

type Denoter struct {
	Anoms []Anomaly
	depth int
}

func (d *Denoter) add(kind, msg string) {
	if len(d.Anoms) < 8 {
		d.Anoms = append(d.Anoms, Anomaly{kind, msg})
	}
}

func (d *Denoter) Denote(v rel.Value) *AV {
	d.depth++
	defer func() { d.depth-- }()
	if d.depth > 40 {
		return &AV{K: '?'}
	}
	switch x := v.(type) {
	case nil:
		return &AV{K: '?'}
	case rel.Number:
		return Num(x.Float64())
	case rel.Tuple:
		m := map[string]*AV{}
		n := 0
		for e := x.Enumerator(); e.MoveNext(); {
			name, val := e.Current()
			n++
			if _, dup := m[nameToSpec(name)]; dup {
				d.add("dup", "attribute "+name+" enumerated twice")
			}
			m[nameToSpec(name)] = d.Denote(val)
		}
		if x.Count() != len(m) {
			d.add("count", fmt.Sprintf("tuple Count()=%d but %d attributes enumerated", x.Count(), len(m)))
		}
		return Tup(m)
	case rel.Closure, *rel.NativeFunction, rel.ExprClosure:
		return &AV{K: 'f'}
	case rel.Set:
		var elems []*AV
		seen := map[string]bool{}
		n := 0
		for e := x.Enumerator(); e.MoveNext(); {
			cur := e.Current()
			av := d.Denote(cur)
			n++
			if n > 100000 {
				d.add("dup", "enumeration does not end")
				break
			}
			c := av.Canon()
			if seen[c] {
				d.add("dup", "member enumerated twice: "+trunc(c, 120))
			}
			seen[c] = true
			elems = append(elems, av)
			if !x.Has(cur) {
				d.add("has", "Has() is false for enumerated member "+trunc(c, 120))
			}
		}
		if cnt := x.Count(); cnt != len(seen) {
			d.add("count", fmt.Sprintf("Count()=%d but %d distinct members enumerated", cnt, len(seen)))
		}
		return SetOf(elems...)
	}
	return &AV{K: '?'}
}

func Denote(v rel.Value) (*AV, []Anomaly) {
	d := &Denoter{}
	a := d.Denote(v)
	return a, d.Anoms
}

func trunc(s string, n int) string {
	if len(s) > n {
		return s[:n] + "…"
	}
	return s
}
