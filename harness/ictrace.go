package main

// C16 / C11: executions of the real import cache validated against ImportCache (ImportCacheTrace).

import (
	"context"
	"encoding/json"
	"fmt"
	"os"
	"path/filepath"
	"runtime"
	"sort"
	"strings"
	"sync"
	"time"

	"github.com/spf13/afero"

	"github.com/arr-ai/arrai/pkg/arraictx"
	"github.com/arr-ai/arrai/pkg/ctxfs"
	"github.com/arr-ai/arrai/pkg/importcache"
	"github.com/arr-ai/arrai/syntax"
)

type icScenario struct {
	Graph map[string][]string `json:"graph"`
	Bad   []string            `json:"bad"`
	Roots map[string]string   `json:"roots"`
}

func goid() string {
	buf := make([]byte, 64)
	buf = buf[:runtime.Stack(buf, false)]
	f := strings.Fields(string(buf))
	if len(f) >= 2 {
		return f[1]
	}
	return "?"
}

var (
	icMu    sync.Mutex
	icGids  = map[string]string{}
	icLines []string
)

func icInit() {
	importcache.VerifTrace = func(ev, key string) {
		// called with the cache mutex held: the order of these appends is the order of the steps
		icMu.Lock()
		g := icGids[goid()]
		if g != "" {
			f := strings.TrimSuffix(filepath.Base(key), ".arrai")
			icLines = append(icLines, fmt.Sprintf(`{"ev":%q,"g":%q,"f":%q}`, ev, g, f))
		}
		icMu.Unlock()
	}
}

// handleICRecord runs one scenario: the goroutines compile their root files through one shared import
// cache, released together; the recorded event lines come back as Data.
func handleICRecord(raw json.RawMessage) *Obs {
	var sc icScenario
	if err := json.Unmarshal(raw, &sc); err != nil {
		return &Obs{Fails: []Fail{{Sig: Signature{Symptom: "bad-case"}, Detail: err.Error()}}}
	}
	obs := &Obs{Evals: len(sc.Roots), NonTrivial: 1}
	mem := afero.NewMemMapFs()
	afero.WriteFile(mem, "/m/go.mod", []byte("module example.com/m\n"), 0o644) //nolint:errcheck
	bad := map[string]bool{}
	for _, b := range sc.Bad {
		bad[b] = true
	}
	for f, out := range sc.Graph {
		terms := []string{"1"}
		for _, j := range out {
			terms = append(terms, "//{./"+j+"}")
		}
		if bad[f] {
			terms = append(terms, "(1 ~ 2)") // fails to compile after its imports have been compiled
		}
		afero.WriteFile(mem, "/m/"+f+".arrai", []byte(strings.Join(terms, " + ")), 0o644) //nolint:errcheck
	}
	ctx := importcache.WithNewImportCache(ctxfs.SourceFsOnto(arraictx.InitRunCtx(context.Background()), mem))
	icMu.Lock()
	icLines = nil
	icGids = map[string]string{}
	icMu.Unlock()
	var gs []string
	for g := range sc.Roots {
		gs = append(gs, g)
	}
	sort.Strings(gs)
	// Two goroutines that share one cache can still deadlock on a cyclic import graph (the design-level
	// finding of ImportCache_two_cyclic.cfg, recorded in DESIGN.md): on cyclic graphs the goroutines take
	// their turns one after the other - still a behaviour of the spec, still one shared cache.
	cyclic := false
	var visit func(f string, path map[string]bool)
	visit = func(f string, path map[string]bool) {
		if path[f] {
			cyclic = true
			return
		}
		path[f] = true
		for _, j := range sc.Graph[f] {
			if !cyclic {
				visit(j, path)
			}
		}
		delete(path, f)
	}
	for f := range sc.Graph {
		visit(f, map[string]bool{})
	}
	start := make(chan struct{})
	turn := make([]chan struct{}, len(gs)+1)
	for i := range turn {
		turn[i] = make(chan struct{})
	}
	var wg sync.WaitGroup
	outcomes := make([]string, len(gs))
	for i, g := range gs {
		wg.Add(1)
		go func(i int, g string) {
			defer wg.Done()
			icMu.Lock()
			icGids[goid()] = g
			icMu.Unlock()
			<-start
			if cyclic {
				<-turn[i]
				defer close(turn[i+1])
			}
			_, _, p := catch(func() {
				_, err := syntax.EvaluateExpr(ctx, "/m/main-"+g+".arrai", "//{./"+sc.Roots[g]+"}")
				if err != nil {
					outcomes[i] = "error"
				} else {
					outcomes[i] = "ok"
				}
			})
			if p {
				outcomes[i] = "panic"
			}
		}(i, g)
	}
	close(start)
	close(turn[0])
	done := make(chan struct{})
	go func() { wg.Wait(); close(done) }()
	select {
	case <-done:
	case <-time.After(20 * time.Second):
		obs.Fails = append(obs.Fails, Fail{Sig: Signature{Op: "import-cache", Symptom: "timeout", Msg: "shared-cache"},
			Detail: fmt.Sprintf("scenario %s: the goroutines did not all finish within 20 s", string(raw))})
		obs.Restart = true
		return obs
	}
	icMu.Lock()
	lines := append([]string(nil), icLines...)
	icMu.Unlock()
	init := map[string]interface{}{"ev": "init", "graph": sc.Graph, "bad": sc.Bad, "roots": sc.Roots}
	obs.Data = append([]string{string(mustJSON(init))}, lines...)
	obs.Sample = fmt.Sprintf("%s -> %v", string(raw), outcomes)
	return obs
}

// validateICTraces records executions of sampled scenarios and has TLC validate them in batches.
func validateICTraces(rep *Report, rc *RunCtx) {
	n := tierPick(rc.Tier, "num=400", "num=6000")
	r := &TLCRun{Module: "ImportCache", Cfg: "ImportCache_scen.cfg", Simulate: n, Depth: 2, Seed: rc.Seed + 11, Workers: 1, Timeout: 20 * time.Minute}
	lines, wait := r.Start()
	type rec struct {
		c     []byte
		lines []string
	}
	var recs []rec
	var mu sync.Mutex
	(&Pool{Handler: "ictrace-record", Timeout: 60 * time.Second}).Run(lines, func(c []byte, o *Obs) {
		if len(o.Fails) > 0 {
			rep.Add(c, o)
			return
		}
		mu.Lock()
		recs = append(recs, rec{append([]byte(nil), c...), o.Data})
		mu.Unlock()
		rep.Add(c, &Obs{Evals: o.Evals, NonTrivial: 1, Sample: o.Sample})
	})
	st := wait()
	st.RequireClean("C16 ImportCache_scen.cfg")
	events := 0
	validate := func(batch []rec) (accepted bool, all string) {
		path := filepath.Join(verifRoot, ".work", fmt.Sprintf("ictrace-%d.ndjson", os.Getpid()))
		var sb strings.Builder
		for _, r := range batch {
			for _, l := range r.lines {
				sb.WriteString(l + "\n")
			}
		}
		must(os.WriteFile(path, []byte(sb.String()), 0o644))
		defer os.Remove(path)
		ts := runTLCPlain(&TLCRun{Module: "ImportCacheTrace", Cfg: "ImportCacheTrace.cfg", Workers: 1, Timeout: 30 * time.Minute,
			ExtraFiles: map[string]string{path: "ictrace.ndjson"}, Env: []string{"JAVA_TOOL_OPTIONS=-Dtlc2.tool.queue.IStateQueue=StateDeque"}})
		all = strings.Join(ts.Errors, "\n")
		if strings.Contains(all, "TraceInv") {
			return false, "an ImportCache invariant (TypeOK / SingleFlight / InflightHasOwner) is violated in a state of the recorded execution\n" + all
		}
		if strings.Contains(all, "NotAllConsumed") {
			return true, ""
		}
		if ts.ExitCode != 0 && !strings.Contains(all, "violated") {
			infraFail("ImportCacheTrace: TLC exit %d\n%s", ts.ExitCode, strings.Join(ts.Tail, "\n"))
		}
		return false, "no behaviour of ImportCache consumes the recorded events"
	}
	// the binding itself is checked on every run: an execution with its first claim event removed (a
	// hook that did not fire) must be rejected by TLC
	for _, r := range recs {
		at := -1
		for i, l := range r.lines {
			if strings.Contains(l, `"ev":"claim"`) {
				at = i
				break
			}
		}
		if at < 0 {
			continue
		}
		corrupt := rec{r.c, append(append([]string(nil), r.lines[:at]...), r.lines[at+1:]...)}
		if ok, _ := validate([]rec{corrupt}); ok {
			infraFail("C16: ImportCacheTrace accepted an execution whose first claim event had been removed:\n%s", strings.Join(corrupt.lines, "\n"))
		}
		rep.Extra["import_cache_trace_negative_control"] = "an execution with its first claim event removed is rejected by TLC"
		break
	}
	const batchSize = 40
	rejected := 0
	for i := 0; i < len(recs); i += batchSize {
		j := i + batchSize
		if j > len(recs) {
			j = len(recs)
		}
		batch := recs[i:j]
		for _, r := range batch {
			events += len(r.lines)
		}
		if ok, _ := validate(batch); ok {
			continue
		}
		// find the executions TLC rejects
		for _, r := range batch {
			if ok, why := validate([]rec{r}); !ok {
				rejected++
				rep.AddFail(string(r.c), Fail{Sig: Signature{Op: "import-cache", Symptom: "rejected", Msg: "trace"},
					Detail: fmt.Sprintf("%s\n--- execution ---\n%s", trunc(why, 800), strings.Join(r.lines, "\n"))})
			}
		}
	}
	rep.Traces += int64(len(recs))
	rep.Extra["import_cache_trace_events_validated"] = events
	fmt.Printf("  recorded %d executions of the shared import cache (%d events), validated by ImportCacheTrace: %d rejected\n", len(recs), events, rejected)
}

func init() {
	handlers["ictrace-record"] = handleICRecord
	handlerInit["ictrace-record"] = icInit
}
