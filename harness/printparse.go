package main

// C12: print -> parse -> compare.

import (
	"encoding/json"
	"fmt"
	"strings"

	"github.com/arr-ai/arrai/pkg/fu"
	"github.com/arr-ai/arrai/rel"
	"github.com/arr-ai/arrai/syntax"
)

func init() {
	handlers["printparse"] = handlePrintParse
	props["C12"] = func(rc *RunCtx) int {
		rep := NewReport("C12", rc.Tier, rc.Seed, "model_checking")
		rep.Rule = "TLC enumerates the value universe of PrintParse (all strings up to MaxLen over an escape-hostile code-point alphabet at 3 offsets, strings with a hole, sparse/offset arrays, offset byte arrays, dicts incl. multi-valued keys, tuples with unusual attribute names, numbers, each also nested one level into sets, tuples, arrays, dict keys and values) plus reprint steps inside simulated SetAlgebra chains; each value is built through the rel API, printed with fu.Repr and with //str.repr, parsed and evaluated, and the denotation compared with the spec value (Reprint = identity); the reparsed value must print identically. Non-trivial: every value except {} , true, ()."
		rep.Assume = []string{"values are built through rel.NewTuple/NewSet, not through source text, so the parser is exercised only on printed text", "numbers are integers and halves"}
		rep.Exhaust = true
		runs := []*TLCRun{{Module: "PrintParse", Cfg: tierPick(rc.Tier, "PrintParse_quick.cfg", "PrintParse_thorough.cfg")}}
		pool := &Pool{Handler: "printparse"}
		runTLCToPool(rep, rc, runs, pool)
		if rc.Replay == "" {
			chain := []*TLCRun{{Module: "MC_SetAlgebra", Cfg: "SetAlgebra_chain.cfg", Simulate: tierPick(rc.Tier, "num=1500", "num=40000"), Depth: 7, Seed: rc.Seed + 3, Workers: 1}}
			runTLCToPool(rep, rc, chain, &Pool{Handler: "setalg-c12"})
		}
		return rep.Finish()
	}
}

func handlePrintParse(raw json.RawMessage) *Obs {
	var c struct {
		V json.RawMessage `json:"v"`
	}
	if err := json.Unmarshal(raw, &c); err != nil {
		return &Obs{Fails: []Fail{{Sig: Signature{Symptom: "bad-case"}, Detail: err.Error()}}}
	}
	a := MustParseAV(c.V)
	ctx := &saCtx{mode: "c12", obs: &Obs{Key: a.Canon()}}
	if len(a.S) > 0 && !a.Equal(TrueAV) || len(a.T) > 0 || a.K == 'n' {
		ctx.obs.NonTrivial = 1
	}
	var v rel.Value
	msg, frame, p := catch(func() { v = a.Build() })
	if p {
		ctx.fail("build", a, nil, a, "-", diffInfo{symptom: "panic", msg: classifyMsg(msg), frame: frame, detail: "panic building the value through the rel API: " + msg}, a.Render())
		return ctx.obs
	}
	ctx.obs.Evals++
	if d := compare(a, Outcome{V: v}); !d.ok {
		// the value could not even be constructed faithfully: that belongs to C01/C02, not to printing
		ctx.obs.Notes = append(ctx.obs.Notes, "construction differs from spec value; skipped")
		return ctx.obs
	}
	var text string
	msg, frame, p = catch(func() { text = fu.Repr(v) })
	if p {
		ctx.fail("reprint:repr", a, nil, a, "-", diffInfo{symptom: "panic", msg: classifyMsg(msg), frame: frame, detail: "panic while printing: " + msg}, a.Render())
		return ctx.obs
	}
	ctx.obs.Sample = fmt.Sprintf("%s  --prints as-->  %s", trunc(a.Render(), 200), trunc(text, 200))
	ctx.obs.Evals++
	o := evalSource(text)
	if d := compare(a, o); !d.ok {
		ctx.fail("reprint:repr", a, nil, a, "-", d, "value "+trunc(a.Render(), 400)+"\nprinted as "+trunc(fmt.Sprintf("%q", text), 600))
	} else {
		var text2 string
		catch(func() { text2 = fu.Repr(o.V) })
		if text2 != text {
			ctx.fail("reprint:again", a, nil, a, "-", diffInfo{symptom: "mismatch", msg: "text", detail: fmt.Sprintf("first print %q\nsecond print %q", trunc(text, 300), trunc(text2, 300))}, a.Render())
		}
		ctx.obs.Evals++
		if eq := evalTemplate("a = b", map[string]rel.Value{"a": v, "b": o.V}); eq.Kind() != "value" || !eq.V.IsTrue() {
			ctx.fail("reprint:equal", a, nil, a, "-", diffInfo{symptom: "mismatch", msg: "not-equal", detail: "reparsed value has the same members but is not = to the original: " + eq.String()}, a.Render())
		}
	}
	// //str.repr
	ctx.obs.Evals++
	so := evalTemplate("//str.repr(x)", map[string]rel.Value{"x": v})
	if so.Kind() != "value" {
		ctx.fail("reprint:str.repr", a, nil, a, "-", compare(a, so), "//str.repr("+trunc(a.Render(), 300)+")")
		return ctx.obs
	}
	var stext string
	switch s := so.V.(type) {
	case rel.String:
		stext = s.String()
	default:
		if so.V.IsTrue() {
			ctx.fail("reprint:str.repr", a, nil, a, "-", diffInfo{symptom: "mismatch", msg: "kind", detail: "//str.repr did not return a string: " + reprSafe(so.V)}, a.Render())
			return ctx.obs
		}
	}
	if stext != text {
		if d := compare(a, evalSource(stext)); !d.ok {
			ctx.fail("reprint:str.repr", a, nil, a, "-", d, "value "+trunc(a.Render(), 400)+"\n//str.repr gave "+trunc(fmt.Sprintf("%q", stext), 600))
		}
	}
	return ctx.obs
}

// X02 (beyond the listed properties): the pretty printer (//fmt.pretty) on the PrintParse universe.
func init() {
	handlers["prettyparse"] = handlePrettyParse
	props["X02"] = func(rc *RunCtx) int {
		rep := NewReport("X02", rc.Tier, rc.Seed, "model_checking")
		rep.Rule = "The PrintParse universe (Reprint = identity on denotations) applied to the pretty printer: each value is built through the rel API, printed with syntax.PrettifyString (what //fmt.pretty returns), parsed and evaluated, and the denotation compared with the spec value."
		rep.Exhaust = true
		runs := []*TLCRun{{Module: "PrintParse", Cfg: tierPick(rc.Tier, "PrintParse_quick.cfg", "PrintParse_thorough.cfg")}}
		runTLCToPool(rep, rc, runs, &Pool{Handler: "prettyparse"})
		return rep.Finish()
	}
}

func handlePrettyParse(raw json.RawMessage) *Obs {
	var c struct {
		V json.RawMessage `json:"v"`
	}
	if err := json.Unmarshal(raw, &c); err != nil {
		return &Obs{Fails: []Fail{{Sig: Signature{Symptom: "bad-case"}, Detail: err.Error()}}}
	}
	a := MustParseAV(c.V)
	ctx := &saCtx{mode: "c12", obs: &Obs{Key: a.Canon(), NonTrivial: 1}}
	var v rel.Value
	if _, _, p := catch(func() { v = a.Build() }); p {
		return ctx.obs
	}
	if d := compare(a, Outcome{V: v}); !d.ok {
		ctx.obs.Notes = append(ctx.obs.Notes, "construction differs from spec value; skipped")
		return ctx.obs
	}
	ctx.obs.Evals++
	var text string
	var perr error
	msg, frame, p := catch(func() { text, perr = syntax.PrettifyString(v, 0) })
	if p {
		ctx.fail("pretty", a, nil, a, "-", diffInfo{symptom: "panic", msg: classifyMsg(msg), frame: frame, detail: "panic while pretty-printing: " + msg}, a.Render())
		return ctx.obs
	}
	if perr != nil {
		ctx.fail("pretty", a, nil, a, "-", diffInfo{symptom: "unexpected-error", msg: "refused", detail: "the pretty printer refuses the value: " + safeSprint(perr)}, a.Render())
		return ctx.obs
	}
	if d := compare(a, evalSource(text)); !d.ok {
		ctx.fail("pretty", a, nil, a, "-", d, "value "+trunc(a.Render(), 400)+"\npretty-printed as "+trunc(fmt.Sprintf("%q", text), 600))
	}
	return ctx.obs
}

// X03 (beyond the listed properties): one-line library definitions (LibLaws spec).
func init() {
	handlers["liblaws"] = func(raw json.RawMessage) *Obs {
		var c struct {
			C struct {
				F   string          `json:"f"`
				Arg json.RawMessage `json:"arg"`
				Out json.RawMessage `json:"out"`
			} `json:"c"`
		}
		if err := json.Unmarshal(raw, &c); err != nil {
			return &Obs{Fails: []Fail{{Sig: Signature{Symptom: "bad-case"}, Detail: err.Error()}}}
		}
		arg, want := MustParseAV(c.C.Arg), MustParseAV(c.C.Out)
		obs := &Obs{NonTrivial: 1, Evals: 1}
		var v rel.Value
		if _, _, p := catch(func() { v = arg.Build() }); p {
			return obs
		}
		src := "//" + c.C.F + "(x)"
		obs.Sample = "//" + c.C.F + "(" + arg.RenderSugar() + ")"
		o := evalTemplate(src, map[string]rel.Value{"x": v})
		if d := compare(want, o); !d.ok {
			obs.Fails = append(obs.Fails, Fail{Sig: Signature{Op: c.C.F, ShapeL: arg.Shape().Class, Symptom: d.symptom, Msg: d.msg, Frame: d.frame},
				Detail: fmt.Sprintf("//%s(%s)\nexpected %s\n%s", c.C.F, arg.RenderSugar(), want.RenderSugar(), d.detail)})
		}
		return obs
	}
	props["X03"] = func(rc *RunCtx) int {
		rep := NewReport("X03", rc.Tier, rc.Seed, "model_checking")
		rep.Rule = "LibLaws spec: //bits.mask and //bits.set over subsets of 0..5 and numbers 0..70, //dict and //tuple over all tuples of three names and four values, //rel.union over all sets of six collections, //seq.concat over all arrays of up to three zero-based arrays / strings (empty members included), //str.upper and //str.lower over all strings of up to two characters from the boundary alphabet A Z a z 0 @ [ ` {; TLC checks that the definitions are inverse (idempotent, associative) and emits every input with its expected output, which the real function must return."
		rep.Exhaust = true
		runTLCToPool(rep, rc, []*TLCRun{{Module: "LibLaws", Cfg: "LibLaws.cfg"}}, &Pool{Handler: "liblaws"})
		return rep.Finish()
	}
}

// X04 (beyond the listed properties): the documented whitespace rules of expression strings.
func init() {
	exprSrc := map[string]string{"E": `${""}`, "X": `${"X"}`, "L": `${[1, 2]::\i}`, "Z": `${[]::\i}`, "C": `${[1, 2]::,:;}`}
	handlers["exprstring"] = func(raw json.RawMessage) *Obs {
		var c struct {
			Lines []struct {
				Ind int      `json:"ind"`
				Its []string `json:"its"`
			} `json:"lines"`
			Out []string `json:"out"`
		}
		if err := json.Unmarshal(raw, &c); err != nil {
			return &Obs{Fails: []Fail{{Sig: Signature{Symptom: "bad-case"}, Detail: err.Error()}}}
		}
		var sb strings.Builder
		sb.WriteString("$\"\n")
		shape := ""
		for _, l := range c.Lines {
			sb.WriteString(strings.Repeat(" ", l.Ind))
			shape += fmt.Sprint(l.Ind)
			for _, it := range l.Its {
				shape += it
				if e, is := exprSrc[it]; is {
					sb.WriteString(e)
				} else {
					sb.WriteString(it)
				}
			}
			sb.WriteString("\n")
			shape += "/"
		}
		sb.WriteString("\"")
		src := sb.String()
		want := strings.Join(c.Out, "")
		obs := &Obs{NonTrivial: 1, Evals: 1, Sample: src}
		o := evalSource(src)
		got := ""
		switch {
		case o.Kind() != "value":
			got = "<" + o.Kind() + "> " + trunc(o.String(), 100)
		default:
			if s, is := o.V.(rel.String); is {
				got = s.String()
			} else if !o.V.IsTrue() {
				got = ""
			} else {
				got = "<not a string> " + reprSafe(o.V)
			}
		}
		if got != want {
			// the class of the template: which items stand alone on a line, which indents occur
			cls := ""
			for _, l := range c.Lines {
				switch {
				case len(l.Its) == 0:
					cls += "blank,"
				case len(l.Its) == 1 && exprSrc[l.Its[0]] != "":
					cls += "lone-" + l.Its[0] + ","
				default:
					cls += "mixed,"
				}
			}
			msg := "other"
			squeeze := func(s string) string { return strings.Join(strings.Fields(s), " ") }
			switch {
			case strings.TrimRight(want, "\n") == got:
				msg = "trailing-newline-lost"
			case squeeze(want) == squeeze(got):
				msg = "indent-differs"
			}
			obs.Fails = append(obs.Fails, Fail{Sig: Signature{Op: "xstr", ShapeL: cls, Symptom: "mismatch", Msg: msg},
				Detail: fmt.Sprintf("%s\ndocumented rules give %q\nthe implementation gives %q", src, want, got), Source: src})
		}
		return obs
	}
	props["X04"] = func(rc *RunCtx) int {
		rep := NewReport("X04", rc.Tier, rc.Seed, "model_checking")
		rep.Rule = "ExprString spec: every template of up to 2 (thorough: 3) lines, each an indent of 0 / 2 / 4 spaces and up to two items (text, ${\"\"}, ${\"X\"}, ${[1,2]::\\i}, ${[]::\\i}, ${[1,2]::,:;}), rendered by the documented whitespace rules (leading newline, base indent, trailing newline, omitted lines, \\i, extra) and compared with the string the real compiler and //str.expand produce."
		rep.Exhaust = true
		runTLCToPool(rep, rc, []*TLCRun{{Module: "ExprString", Cfg: tierPick(rc.Tier, "ExprString_quick.cfg", "ExprString_thorough.cfg")}}, &Pool{Handler: "exprstring"})
		return rep.Finish()
	}
}
