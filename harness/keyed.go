package main

// Replay of Keyed cases (C05; histories also serve C03) against the real code.

import (
	"encoding/json"
	"fmt"
	"strings"

	"github.com/arr-ai/arrai/rel"
)

type kStep struct {
	K   string          `json:"k"`
	I   int             `json:"i"`
	J   int             `json:"j"`
	F   string          `json:"f"`
	N   int             `json:"n"`
	E   json.RawMessage `json:"e"`
	Key json.RawMessage `json:"key"`
}

type kCase struct {
	Spec string            `json:"spec"`
	Prog []kStep           `json:"prog"`
	Env  []json.RawMessage `json:"env"`
}

type kRes struct {
	Calls []struct{ K, R, O json.RawMessage }
	Maps  []struct {
		F string
		R json.RawMessage
	}
	Maps2 []struct {
		F string
		R json.RawMessage
	}
	Cat    json.RawMessage
	Shifts []struct {
		N int
		R json.RawMessage
	}
}

var fnSrc = map[string]string{
	"id": `\v v`, "inc": `\v v + 1`, "const": `\v 1`, "wrap": `\v {v}`, "fail2": `\v cond v {2: v.x, _: v}`,
}
var fn2Src = map[string]string{"key": `\k \v k`, "val": `\k \v v`, "sum": `\k \v k + v`}

func init() {
	handlers["keyed-c05"] = func(c json.RawMessage) *Obs { return handleKeyed("c05", c) }
	handlers["multi-c03"] = func(c json.RawMessage) *Obs {
		var probe struct{ Spec string }
		json.Unmarshal(c, &probe)
		if probe.Spec == "Keyed" {
			return handleKeyed("c03", c)
		}
		if probe.Spec == "Relational" {
			var cs rCase
			if err := json.Unmarshal(c, &cs); err != nil {
				return &Obs{Fails: []Fail{{Sig: Signature{Symptom: "bad-case"}, Detail: err.Error()}}}
			}
			return handleRelationalMode("c03", c, &cs)
		}
		return handleSetAlg("c03", c)
	}
}

func keyShape(k *AV) string {
	switch k.K {
	case 'n':
		if isInt(k) {
			return "key:int"
		}
		return "key:nonint"
	case 't':
		return "key:tuple"
	}
	return "key:set"
}

func handleKeyed(mode string, raw json.RawMessage) *Obs {
	var c kCase
	if err := json.Unmarshal(raw, &c); err != nil {
		return &Obs{Fails: []Fail{{Sig: Signature{Symptom: "bad-case"}, Detail: err.Error()}}}
	}
	ctx := &saCtx{mode: mode, obs: &Obs{}}
	if c.Prog[len(c.Prog)-1].K == "allops" {
		ctx.keyedOne(&c)
	} else {
		ctx.keyedChain(&c)
	}
	return ctx.obs
}

func (c *saCtx) keyedOne(cs *kCase) {
	a := MustParseAV(cs.Env[0])
	b := MustParseAV(cs.Env[1])
	var r kRes
	if err := json.Unmarshal(cs.Env[2], &r); err != nil {
		panic(err)
	}
	c.obs.Key = a.Canon() + "|" + b.Canon()
	if len(a.S) > 0 {
		c.obs.NonTrivial = 1
	}
	c.obs.Sample = fmt.Sprintf("c = %s ; b = %s ; c(k) and c(k)?:99 for 10 keys, c >> f, c >>> f, c ++ b, n\\c", a.RenderSugar(), b.RenderSugar())
	ras := c.realiseAll(a)
	rbs := c.realiseAll(b)
	if len(ras) == 0 || len(rbs) == 0 {
		return
	}
	limit := tierPick(verifTier, 3, 5)
	h := hashOf(verifSeed, c.obs.Key)
	for n := 0; n < limit && n < len(ras); n++ {
		x := ras[(int(h%uint64(len(ras)))+n)%len(ras)]
		y := rbs[(int((h>>16)%uint64(len(rbs)))+n)%len(rbs)]
		vars := map[string]rel.Value{"c": x.v, "b": y.v}
		tag := fmt.Sprintf("let c = %s; let b = %s; ", x.src, y.src)
		check := func(op, src string, e, r *AV, shapeR string, extra string) {
			c.obs.Evals++
			if d := compare(e, evalTemplate(src, vars)); !d.ok {
				c.fail(op, a, r, e, shapeR, d, tag+extra+src)
			}
		}
		for _, q := range r.Calls {
			k := MustParseAV(q.K)
			var kv rel.Value
			if _, _, p := catch(func() { kv = k.Build() }); p {
				continue
			}
			vars["k"] = kv
			ex := "let k = " + k.RenderSugar() + "; "
			check("call", "c(k)", MustParseAV(q.R), nil, keyShape(k), ex)
			check("?:", "c(k)?:99", MustParseAV(q.O), nil, keyShape(k), ex)
		}
		for _, q := range r.Maps {
			check(">>:"+q.F, "c >> "+fnSrc[q.F], MustParseAV(q.R), nil, "-", "")
		}
		for _, q := range r.Maps2 {
			check(">>>:"+q.F, "c >>> "+fn2Src[q.F], MustParseAV(q.R), nil, "-", "")
		}
		check("++", "c ++ b", MustParseAV(r.Cat), b, "", "")
		for _, q := range r.Shifts {
			vars["n"] = rel.NewNumber(float64(q.N))
			check("\\", `(n)\(c)`, MustParseAV(q.R), nil, "-", fmt.Sprintf("let n = %d; ", q.N))
		}
	}
}

func (c *saCtx) keyedChain(cs *kCase) {
	n := len(cs.Prog)
	exp := make([]*AV, n)
	for i := range exp {
		exp[i] = MustParseAV(cs.Env[i])
	}
	vals := make([]rel.Value, n)
	c.obs.Key = string(mustJSON(cs.Prog)) + exp[0].Canon() + exp[1].Canon()
	c.obs.NonTrivial = 1
	var lines []string
	for i, st := range cs.Prog {
		var o Outcome
		var src, opname string
		var l, r *AV
		switch st.K {
		case "lit":
			rs := []string{}
			for _, rc := range allRecipes {
				if rc == "api" || exp[i].RenderRecipe(rc) != "" {
					rs = append(rs, rc)
				}
			}
			rc := rs[hashOf(verifSeed, i, exp[i].Canon())%uint64(len(rs))]
			if c.mode == "c03" && hashOf(verifSeed, c.obs.Key)%2 == 0 {
				if _, _, ok := realise(exp[i], "apicap"); ok {
					rc = "apicap"
				}
			}
			o, src, _ = realise(exp[i], rc)
			opname, l = "lit:"+rc, exp[i]
		case "map":
			l = exp[st.I-1]
			opname = ">>:" + st.F
			src = fmt.Sprintf("v%d >> %s", st.I, fnSrc[st.F])
			o = evalTemplate("c >> "+fnSrc[st.F], map[string]rel.Value{"c": vals[st.I-1]})
		case "map2":
			l = exp[st.I-1]
			opname = ">>>:" + st.F
			src = fmt.Sprintf("v%d >>> %s", st.I, fn2Src[st.F])
			o = evalTemplate("c >>> "+fn2Src[st.F], map[string]rel.Value{"c": vals[st.I-1]})
		case "cat":
			l, r = exp[st.I-1], exp[st.J-1]
			opname = "++"
			src = fmt.Sprintf("v%d ++ v%d", st.I, st.J)
			if c.mode == "c03" && hashOf(verifSeed, c.obs.Key)%2 == 0 {
				msg, frame, p := catch(func() { o.V, o.Err = rel.Concatenate(vals[st.I-1].(rel.Set), vals[st.J-1].(rel.Set)) })
				if p {
					o = Outcome{Panic: msg, Frame: frame}
				}
			} else {
				o = evalTemplate("c ++ b", map[string]rel.Value{"c": vals[st.I-1], "b": vals[st.J-1]})
			}
		case "shift":
			l = exp[st.I-1]
			opname = "\\"
			src = fmt.Sprintf("(%d)\\v%d", st.N, st.I)
			o = evalTemplate(`(n)\(c)`, map[string]rel.Value{"c": vals[st.I-1], "n": rel.NewNumber(float64(st.N))})
		case "with", "without":
			l = exp[st.I-1]
			e := MustParseAV(st.E)
			r = e
			opname = st.K
			src = fmt.Sprintf("v%d %s %s", st.I, st.K, e.Render())
			var ev rel.Value
			catch(func() { ev = e.Build() })
			if c.mode == "c03" && hashOf(verifSeed, c.obs.Key)%2 == 0 {
				msg, frame, p := catch(func() {
					if st.K == "with" {
						o.V = vals[st.I-1].(rel.Set).With(ev)
					} else {
						o.V = vals[st.I-1].(rel.Set).Without(ev)
					}
				})
				if p {
					o = Outcome{Panic: msg, Frame: frame}
				}
			} else {
				o = evalTemplate("c "+st.K+" e", map[string]rel.Value{"c": vals[st.I-1], "e": ev})
			}
		case "call":
			l = exp[st.I-1]
			k := MustParseAV(st.Key)
			opname = "call"
			src = fmt.Sprintf("v%d(%s)", st.I, k.RenderSugar())
			var kv rel.Value
			catch(func() { kv = k.Build() })
			o = evalTemplate("c(k)", map[string]rel.Value{"c": vals[st.I-1], "k": kv})
		}
		lines = append(lines, fmt.Sprintf("let v%d = %s;", i+1, src))
		c.obs.Evals++
		d := compare(exp[i], o)
		if !d.ok {
			if c.mode == "c05" {
				c.fail(opname, l, r, exp[i], "", d, strings.Join(lines, " "))
			}
			break
		}
		vals[i] = o.V
		if c.mode == "c03" {
			for j := 0; j < i; j++ {
				if exp[j].K == 'e' {
					continue
				}
				c.obs.Evals++
				if dj := compare(exp[j], Outcome{V: vals[j]}); !dj.ok {
					dj.symptom = "mutated"
					c.fail(opname, exp[j], r, exp[j], "", dj, strings.Join(lines, " ")+fmt.Sprintf("  -- v%d changed after step %d", j+1, i+1))
				}
			}
		}
		if exp[i].K == 'e' {
			vals[i] = nil
		}
	}
	c.obs.Sample = strings.Join(lines, " ")
}

func keyedRuns(rc *RunCtx, chainQuick, chainThorough string) []*TLCRun {
	return []*TLCRun{{Module: "Keyed", Cfg: "Keyed_chain.cfg", Simulate: tierPick(rc.Tier, chainQuick, chainThorough), Depth: 7, Seed: rc.Seed + 2, Workers: 1}}
}

func init() {
	props["C05"] = func(rc *RunCtx) int {
		rep := NewReport("C05", rc.Tier, rc.Seed, "model_checking")
		rep.Rule = "TLC enumerates every ordered pair of keyed collections (subsets of per-kind element pools: chars, items, bytes, dict entries, generic {|@,x|} rows, at indices -1,0,1,2,4 so that offsets, holes and duplicate keys occur) and, per pair, the result of c(k) and c(k)?:99 for 10 keys (present, absent, non-integer, set, tuple, string), >> with 5 transformers (one that fails on one element), >>> with 3, c ++ b and n\\c for 3 shifts; chains of those operators are simulated. Each collection is realised through several recipes. Non-trivial: c non-empty; distinct = distinct (c, b)."
		rep.Assume = append([]string{"errors are compared as 'is an error', never by message"}, setAlgAssume...)
		rep.Exhaust = true
		runs := []*TLCRun{{Module: "Keyed", Cfg: tierPick(rc.Tier, "Keyed_quick.cfg", "Keyed_thorough.cfg")}}
		runs = append(runs, keyedRuns(rc, "num=1500", "num=60000")...)
		runTLCToPool(rep, rc, runs, &Pool{Handler: "keyed-c05"})
		return rep.Finish()
	}
}
