package main

// C19: --out=dir:PATH against the OutDir spec, on an in-memory file system with fault injection.

import (
	"context"
	"encoding/json"
	"fmt"
	"io"
	"os"
	"path/filepath"
	"sort"
	"strings"

	"github.com/spf13/afero"

	"github.com/arr-ai/arrai/pkg/arrai"
	"github.com/arr-ai/arrai/pkg/arraictx"
	"github.com/arr-ai/arrai/pkg/ctxfs"
	"github.com/arr-ai/arrai/rel"
)

type outEntry struct {
	T    string          `json:"t"`
	C    string          `json:"c"`
	Ife  string          `json:"ife"`
	Hd   bool            `json:"hd"`
	Dir  json.RawMessage `json:"dir"`
	File string          `json:"file"`
	D    json.RawMessage `json:"d"`
}

type outNode struct {
	P []string `json:"p"`
	C string   `json:"c"`
}

type outCase struct {
	C struct {
		D      json.RawMessage `json:"d"`
		Prior  int             `json:"prior"`
		Badkey string          `json:"badkey"`
		Before struct {
			Nodes []outNode `json:"nodes"`
		} `json:"before"`
		After json.RawMessage `json:"after"`
	} `json:"c"`
}

var outContents = map[string]string{"c0": "", "c1": "one", "c2": "\x02\x32", "c7": "seven", "c8": "eight", "c9": "nine"}

func outContentValue(c string) rel.Value {
	switch c {
	case "c0":
		return rel.None
	case "c2":
		return rel.NewBytes([]byte(outContents[c]))
	case "cnum":
		return rel.NewNumber(42)
	}
	return rel.NewString([]rune(outContents[c]))
}

func outDictValue(raw json.RawMessage, kinds map[string]bool) rel.Value {
	var pairs [][]json.RawMessage
	if len(raw) == 0 || json.Unmarshal(raw, &pairs) != nil || len(pairs) == 0 {
		return rel.None
	}
	var entries []rel.DictEntryTuple
	for _, p := range pairs {
		var k string
		json.Unmarshal(p[0], &k)
		var e outEntry
		json.Unmarshal(p[1], &e)
		entries = append(entries, rel.NewDictEntryTuple(rel.NewString([]rune(k)), outEntryValue(e, kinds)))
	}
	return rel.MustNewDict(false, entries...)
}

func outEntryValue(e outEntry, kinds map[string]bool) rel.Value {
	kinds[e.T] = true
	switch e.T {
	case "file":
		return outContentValue(e.C)
	case "num":
		return rel.NewNumber(42)
	case "set":
		return rel.MustNewSet(rel.NewNumber(1))
	case "dict":
		return outDictValue(e.D, kinds)
	case "cfg":
		kinds["ife:"+e.Ife] = true
		var attrs []rel.Attr
		switch e.Ife {
		case "none":
		case "num":
			attrs = append(attrs, rel.NewAttr("ifExists", rel.NewNumber(5)))
		default:
			attrs = append(attrs, rel.NewAttr("ifExists", rel.NewString([]rune(e.Ife))))
		}
		if e.Hd {
			attrs = append(attrs, rel.NewAttr("dir", outDictValue(e.Dir, kinds)))
		}
		if e.File != "-" && e.File != "" {
			attrs = append(attrs, rel.NewAttr("file", outContentValue(e.File)))
		}
		return rel.NewTuple(attrs...)
	}
	panic("unknown entry kind " + e.T)
}

// faultFs fails the k-th mutating operation (k = 0: never) and counts them.
type faultFs struct {
	afero.Fs
	n, failAt int
}

var errInjected = fmt.Errorf("injected I/O error")
var outSeq int

func (f *faultFs) tick() error {
	f.n++
	if f.n == f.failAt {
		return errInjected
	}
	return nil
}
func (f *faultFs) Create(name string) (afero.File, error) {
	if err := f.tick(); err != nil {
		return nil, err
	}
	file, err := f.Fs.Create(name)
	if err != nil {
		return nil, err
	}
	return &faultFile{File: file, fs: f}, nil
}
func (f *faultFs) OpenFile(name string, flag int, perm os.FileMode) (afero.File, error) {
	if flag&(os.O_WRONLY|os.O_RDWR|os.O_CREATE|os.O_TRUNC|os.O_APPEND) != 0 {
		if err := f.tick(); err != nil {
			return nil, err
		}
	}
	file, err := f.Fs.OpenFile(name, flag, perm)
	if err != nil {
		return nil, err
	}
	return &faultFile{File: file, fs: f}, nil
}
func (f *faultFs) Mkdir(name string, perm os.FileMode) error {
	if err := f.tick(); err != nil {
		return err
	}
	return f.Fs.Mkdir(name, perm)
}
func (f *faultFs) MkdirAll(name string, perm os.FileMode) error {
	if err := f.tick(); err != nil {
		return err
	}
	return f.Fs.MkdirAll(name, perm)
}
func (f *faultFs) Remove(name string) error {
	if err := f.tick(); err != nil {
		return err
	}
	return f.Fs.Remove(name)
}
func (f *faultFs) RemoveAll(name string) error {
	if err := f.tick(); err != nil {
		return err
	}
	return f.Fs.RemoveAll(name)
}

type faultFile struct {
	afero.File
	fs *faultFs
}

func (f *faultFile) Write(b []byte) (int, error) {
	if err := f.fs.tick(); err != nil {
		return 0, err
	}
	return f.File.Write(b)
}
func (f *faultFile) Sync() error {
	if err := f.fs.tick(); err != nil {
		return err
	}
	return f.File.Sync()
}

func snapshotFs(fs afero.Fs) map[string]string {
	out := map[string]string{}
	afero.Walk(fs, "/", func(p string, info os.FileInfo, err error) error {
		if err != nil {
			return nil
		}
		if info.IsDir() {
			out[p] = "dir"
		} else {
			b, _ := afero.ReadFile(fs, p)
			out[p] = "file:" + string(b)
		}
		return nil
	})
	return out
}

func snapString(m map[string]string) string {
	ks := make([]string, 0, len(m))
	for k, v := range m {
		ks = append(ks, fmt.Sprintf("%s=%q", k, v))
	}
	sort.Strings(ks)
	return strings.Join(ks, " ")
}

func init() {
	handlers["outdir"] = handleOutDir
	props["C19"] = func(rc *RunCtx) int {
		rep := NewReport("C19", rc.Tier, rc.Seed, "model_checking")
		rep.Rule = "TLC enumerates output dictionaries (keys a, b; entries: strings, byte arrays, {}, nested dicts, config tuples with every ifExists value with dir / file / neither, invalid members: numbers, non-empty sets, unknown or non-string ifExists, merge with file, missing dir/file) x prior trees under PATH (absent, empty, file, directory with children, mixtures) x top-level keys that are not a path segment ('../x', 'a/b', '.', '', a number), and computes Run(d, prior) from the documented meaning: the resulting tree, Invalid (nothing may change) or Unspec (docs silent: only 'error => nothing changed'). Each case runs arrai.OutputValue on an afero.MemMapFs; the whole file system is snapshotted before and after, so writes outside PATH are seen. For valid descriptions an I/O error is injected at every mutating file-system operation in turn: the command must then report failure. Non-trivial: descriptions with at least one entry and a non-absent prior."
		rep.Assume = []string{"afero.MemMapFs stands in for the OS file system", "fault injection covers Create/OpenFile(write)/Mkdir/MkdirAll/Remove/RemoveAll and File.Write/Sync"}
		rep.Exhaust = true
		rep.Level = "model_checking"
		runTLCToPool(rep, rc, []*TLCRun{{Module: "OutDir", Cfg: tierPick(rc.Tier, "OutDir_quick.cfg", "OutDir_thorough.cfg")}}, &Pool{Handler: "outdir"})
		return rep.Finish()
	}
}

func handleOutDir(raw json.RawMessage) *Obs {
	var cs outCase
	if err := json.Unmarshal(raw, &cs); err != nil {
		return &Obs{Fails: []Fail{{Sig: Signature{Symptom: "bad-case"}, Detail: err.Error()}}}
	}
	c := cs.C
	obs := &Obs{Evals: 1, Key: string(c.D) + fmt.Sprint(c.Prior, c.Badkey)}
	kinds := map[string]bool{}
	value := outDictValue(c.D, kinds)
	if c.Badkey != "ok" {
		var key rel.Value
		switch c.Badkey {
		case "numkey":
			key = rel.NewNumber(5)
		case "dotdot":
			key = rel.NewString([]rune("../escaped"))
		case "slash":
			key = rel.NewString([]rune("a/b"))
		case "dot":
			key = rel.NewString([]rune("."))
		case "empty":
			key = rel.None
		}
		value = value.(rel.Set).With(rel.NewDictEntryTuple(key, rel.NewString([]rune("x"))))
	}
	if value.IsTrue() && c.Prior != 0 {
		obs.NonTrivial = 1
	}
	// a real directory tree (afero.BasePathFs over the OS file system): MemMapFs is too forgiving, e.g.
	// Create over an existing directory succeeds there
	var bases []string
	defer func() {
		for _, b := range bases {
			os.RemoveAll(b)
		}
	}()
	build := func() afero.Fs {
		outSeq++
		base := filepath.Join(verifRoot, ".work", fmt.Sprintf("outdir-%d-%d", os.Getpid(), outSeq))
		os.RemoveAll(base)
		os.MkdirAll(base, 0o755)
		bases = append(bases, base)
		mem := afero.NewBasePathFs(afero.NewOsFs(), base)
		mem.MkdirAll("/w", 0o755)
		afero.WriteFile(mem, "/w/sibling.txt", []byte("keep"), 0o644)
		for _, n := range c.Before.Nodes {
			p := "/w/" + strings.Join(n.P, "/")
			if n.C == "dir" {
				mem.MkdirAll(p, 0o755)
			} else {
				afero.WriteFile(mem, p, []byte(outContents[n.C]), 0o644)
			}
		}
		return mem
	}
	run := func(fs afero.Fs) (err error, pmsg, pframe string) {
		ctx := ctxfs.RuntimeFsOnto(arraictx.InitRunCtx(context.Background()), fs)
		m, f, p := catch(func() { err = arrai.OutputValue(ctx, value, io.Discard, "dir:/w/out") })
		if p {
			return nil, m, f
		}
		return err, "", ""
	}
	mem := build()
	before := snapshotFs(mem)
	ff := &faultFs{Fs: mem}
	err, pmsg, pframe := run(ff)
	after := snapshotFs(mem)
	src := "arrai eval --out=dir:/w/out '" + reprSafe(value) + "'   prior: " + snapString(before)
	obs.Sample = trunc(src, 400)
	var flags []string
	for k := range kinds {
		if strings.HasPrefix(k, "ife:") || k == "num" || k == "set" || k == "dict" {
			flags = append(flags, k)
		}
	}
	sort.Strings(flags)
	fail := func(sym, msgc, detail string) {
		obs.Fails = append(obs.Fails, Fail{Sig: Signature{Op: "out:dir", ShapeL: "badkey:" + c.Badkey, Flags: flags, Symptom: sym, Msg: msgc, Frame: pframe},
			Detail: src + "\n" + detail, Source: src})
	}
	if pmsg != "" {
		fail("panic", classifyMsg(pmsg), pmsg)
		return obs
	}
	// nothing outside PATH is ever touched
	outside := func(s map[string]string) map[string]string {
		o := map[string]string{}
		for k, v := range s {
			if k != "/w/out" && !strings.HasPrefix(k, "/w/out/") {
				o[k] = v
			}
		}
		return o
	}
	if snapString(outside(before)) != snapString(outside(after)) {
		fail("escape", "outside-path-touched", fmt.Sprintf("outside PATH before: %s\noutside PATH after:  %s (error: %v)", snapString(outside(before)), snapString(outside(after)), err))
	}
	unchanged := snapString(before) == snapString(after)
	var exp struct {
		Invalid bool      `json:"invalid"`
		Unspec  bool      `json:"unspec"`
		Nodes   []outNode `json:"nodes"`
	}
	json.Unmarshal(c.After, &exp)
	switch {
	case exp.Invalid:
		if err == nil {
			fail("unexpected-value", "invalid-description-accepted", "the description is invalid but the command reported success; tree after: "+snapString(after))
		} else if !unchanged {
			fail("mismatch", "partial-write-on-invalid", fmt.Sprintf("the command failed (%v) but changed the file system:\nbefore: %s\nafter:  %s", trunc(err.Error(), 120), snapString(before), snapString(after)))
		}
	case exp.Unspec:
		if err != nil && !unchanged {
			fail("mismatch", "partial-write-on-refusal", fmt.Sprintf("the command refused (%v) but changed the file system:\nbefore: %s\nafter:  %s", trunc(err.Error(), 120), snapString(before), snapString(after)))
		}
	default:
		want := map[string]string{}
		for k, v := range outside(before) {
			want[k] = v
		}
		for _, n := range exp.Nodes {
			p := "/w/" + strings.Join(n.P, "/")
			if n.C == "dir" {
				want[p] = "dir"
			} else {
				want[p] = "file:" + outContents[n.C]
			}
		}
		if err != nil {
			fail("unexpected-error", classifyErr(err.Error()), fmt.Sprintf("valid description refused: %v\nexpected tree: %s", trunc(err.Error(), 200), snapString(want)))
		} else if snapString(want) != snapString(after) {
			fail("mismatch", "tree-differs", fmt.Sprintf("expected: %s\ngot:      %s", snapString(want), snapString(after)))
		} else if hashOf(verifSeed, obs.Key)%uint64(tierPick(verifTier, 4, 1)) == 0 {
			// an I/O error at any mutating operation must make the command fail
			total := ff.n
			for k := 1; k <= total; k++ {
				obs.Evals++
				ferr, fp, _ := run(&faultFs{Fs: build(), failAt: k})
				if fp != "" {
					fail("panic", "fault:"+classifyMsg(fp), fmt.Sprintf("panic with an I/O error injected at operation %d of %d: %s", k, total, fp))
					break
				}
				if ferr == nil {
					fail("unexpected-value", "fault-swallowed", fmt.Sprintf("an I/O error injected at mutating operation %d of %d was swallowed: the command reported success", k, total))
					break
				}
			}
		}
	}
	return obs
}
