package main

// Aggregation of observations, known-finding classification, evidence and replay files.

import (
	"crypto/sha1"
	"encoding/hex"
	"encoding/json"
	"fmt"
	"os"
	"path/filepath"
	"sort"
	"strings"
	"time"
)

type Match struct {
	Op         string   `json:"op,omitempty"`
	OpsAny     []string `json:"ops_any,omitempty"`
	ShapeL     string   `json:"shape_l,omitempty"`
	ShapeR     string   `json:"shape_r,omitempty"`
	ShapeAny   []string `json:"shape_any,omitempty"` // either operand shape has one of these prefixes
	FlagsAny   []string `json:"flags_any,omitempty"`
	FlagsAll   []string `json:"flags_all,omitempty"`
	Symptom    string   `json:"symptom,omitempty"`
	SymptomAny []string `json:"symptom_any,omitempty"`
	Frame      string   `json:"frame,omitempty"`     // prefix of the first arrai frame
	FrameAny   []string `json:"frame_any,omitempty"` // any of these prefixes
	MsgClass   string   `json:"msg_class,omitempty"` // substring
	StepKind   string   `json:"step_kind,omitempty"`
	StepAny    []string `json:"step_any,omitempty"`
}

type Finding struct {
	ID        string   `json:"id"`
	Property  []string `json:"property"`
	Status    string   `json:"status"` // recorded | fixed
	Match     *Match   `json:"match,omitempty"`
	WhatFails string   `json:"what_fails,omitempty"`
	Example   string   `json:"example,omitempty"`
	Commit    string   `json:"commit,omitempty"`
	Fixed     string   `json:"fixed,omitempty"` // "fixed: property=<id> <commit> <what failed>"
}

type FindingsFile struct {
	Findings []Finding `json:"findings"`
}

func loadFindings() []Finding {
	b, err := os.ReadFile(filepath.Join(verifRoot, "known-findings.json"))
	if err != nil {
		return nil
	}
	var f FindingsFile
	if err := json.Unmarshal(b, &f); err != nil {
		infraFail("known-findings.json: %v", err)
	}
	return f.Findings
}

func contains(xs []string, x string) bool {
	for _, y := range xs {
		if y == x {
			return true
		}
	}
	return false
}

func (m *Match) matches(s Signature) bool {
	if m == nil {
		return false
	}
	if m.Op != "" && m.Op != s.Op {
		return false
	}
	if len(m.OpsAny) > 0 && !contains(m.OpsAny, s.Op) {
		return false
	}
	if m.ShapeL != "" && !strings.HasPrefix(s.ShapeL, m.ShapeL) {
		return false
	}
	if m.ShapeR != "" && !strings.HasPrefix(s.ShapeR, m.ShapeR) {
		return false
	}
	if len(m.ShapeAny) > 0 {
		ok := false
		for _, p := range m.ShapeAny {
			if strings.Contains(s.ShapeL, p) || strings.Contains(s.ShapeR, p) {
				ok = true
			}
		}
		if !ok {
			return false
		}
	}
	if len(m.FlagsAny) > 0 {
		ok := false
		for _, f := range m.FlagsAny {
			if contains(s.Flags, f) {
				ok = true
			}
		}
		if !ok {
			return false
		}
	}
	for _, f := range m.FlagsAll {
		if !contains(s.Flags, f) {
			return false
		}
	}
	if m.Symptom != "" && m.Symptom != s.Symptom {
		return false
	}
	if len(m.FrameAny) > 0 {
		ok := false
		for _, f := range m.FrameAny {
			if strings.HasPrefix(s.Frame, f) {
				ok = true
			}
		}
		if !ok {
			return false
		}
	}
	if len(m.SymptomAny) > 0 && !contains(m.SymptomAny, s.Symptom) {
		return false
	}
	if m.Frame != "" && !strings.HasPrefix(s.Frame, m.Frame) {
		return false
	}
	if m.MsgClass != "" && !strings.Contains(s.Msg, m.MsgClass) {
		return false
	}
	if m.StepKind != "" && m.StepKind != s.Step {
		return false
	}
	if len(m.StepAny) > 0 && !contains(m.StepAny, s.Step) {
		return false
	}
	return true
}

type sigAgg struct {
	Sig     Signature
	Count   int
	Fails   []Fail   // first few
	Cases   []string // first few case lines
	Finding string   // id of the known finding, "" = violation
}

type Report struct {
	Prop       string
	Tier       string
	Seed       int64
	Level      string
	Start      time.Time
	Cases      int64
	Evals      int64
	NonTriv    int64
	Distinct   map[string]struct{}
	Samples    []interface{}
	sigs       map[string]*sigAgg
	findings   []Finding
	TLC        []*TLCStats
	Extra      map[string]interface{}
	Assume     []string
	Masked     map[string]int64
	Traces     int64
	Rule       string
	Exhaust    bool
	maxSample  int
	NoteCounts map[string]int64
}

func NewReport(prop, tier string, seed int64, level string) *Report {
	var fs []Finding
	for _, f := range loadFindings() {
		if f.Status != "fixed" && contains(f.Property, prop) {
			fs = append(fs, f)
		}
	}
	return &Report{Prop: prop, Tier: tier, Seed: seed, Level: level, Start: time.Now(), Distinct: map[string]struct{}{},
		sigs: map[string]*sigAgg{}, findings: fs, Extra: map[string]interface{}{}, Masked: map[string]int64{}, maxSample: 6, NoteCounts: map[string]int64{}}
}

func (r *Report) Add(c []byte, o *Obs) {
	r.Cases++
	r.Evals += int64(o.Evals)
	if o.NonTrivial > 0 {
		if o.Key != "" {
			if _, ok := r.Distinct[o.Key]; !ok {
				r.Distinct[o.Key] = struct{}{}
				r.NonTriv++
			}
		} else {
			r.NonTriv += int64(o.NonTrivial)
		}
	}
	if o.Sample != "" && len(r.Samples) < r.maxSample && (r.Cases%97 == 1 || r.Cases < 3) {
		r.Samples = append(r.Samples, o.Sample)
	}
	for _, n := range o.Notes {
		r.NoteCounts[n]++
	}
	for _, f := range o.Fails {
		k := f.Sig.Key()
		a := r.sigs[k]
		if a == nil {
			a = &sigAgg{Sig: f.Sig}
			for _, kf := range r.findings {
				if kf.Match.matches(f.Sig) {
					a.Finding = kf.ID
					break
				}
			}
			r.sigs[k] = a
		}
		a.Count++
		if len(a.Fails) < 5 {
			a.Fails = append(a.Fails, f)
			a.Cases = append(a.Cases, trunc(string(c), 4000))
		}
		if a.Finding != "" {
			r.Masked[a.Finding]++
		}
	}
}

func (r *Report) AddSample(s interface{}) {
	if len(r.Samples) < r.maxSample {
		r.Samples = append(r.Samples, s)
	}
}

// AddFail records a failure found by the orchestrator itself (not by a worker).
func (r *Report) AddFail(c string, f Fail) {
	r.Add([]byte(c), &Obs{Fails: []Fail{f}})
	r.Cases--
}

func commitOf(dir string) string {
	b, err := os.ReadFile(filepath.Join(dir, ".git", "HEAD"))
	if err != nil {
		return ""
	}
	s := strings.TrimSpace(string(b))
	if strings.HasPrefix(s, "ref: ") {
		if b2, err := os.ReadFile(filepath.Join(dir, ".git", s[5:])); err == nil {
			return strings.TrimSpace(string(b2))
		}
	}
	return s
}

// Finish writes the evidence file, prints KNOWN-FINDING / VIOLATION lines and returns the exit code.
func (r *Report) Finish() int {
	keys := make([]string, 0, len(r.sigs))
	for k := range r.sigs {
		keys = append(keys, k)
	}
	sort.Strings(keys)
	violations := 0
	knownSeen := map[string]int{}
	for _, k := range keys {
		a := r.sigs[k]
		if a.Finding != "" {
			knownSeen[a.Finding] += a.Count
			continue
		}
		violations += a.Count
	}
	for _, f := range r.findings {
		if n := knownSeen[f.ID]; n > 0 {
			fmt.Printf("KNOWN-FINDING: property=%s %s: %s (%d cases this run; e.g. %s)\n", r.Prop, f.ID, f.WhatFails, n, f.Example)
		} else {
			fmt.Printf("KNOWN-FINDING: property=%s %s: %s (listed; no case of this class was generated in this run)\n", r.Prop, f.ID, f.WhatFails)
		}
	}
	os.MkdirAll(filepath.Join(verifRoot, "replays"), 0o755)
	printed := 0
	for _, k := range keys {
		a := r.sigs[k]
		if a.Finding != "" {
			continue
		}
		h := sha1.Sum([]byte(k))
		path := filepath.Join(verifRoot, "replays", fmt.Sprintf("%s-%s.json", r.Prop, hex.EncodeToString(h[:5])))
		rep := map[string]interface{}{"property": r.Prop, "signature": a.Sig, "count": a.Count, "fails": a.Fails, "cases": a.Cases,
			"tier": r.Tier, "seed": r.Seed, "repo_commit": commitOf("/repo")}
		b, _ := json.MarshalIndent(rep, "", " ")
		os.WriteFile(path, b, 0o644)
		if printed < 25 {
			fmt.Printf("VIOLATION property=%s replay=%s\n", r.Prop, path)
			d := ""
			if len(a.Fails) > 0 {
				d = a.Fails[0].Detail
			}
			fmt.Printf("  signature: %s  (%d cases)\n  %s\n", k, a.Count, trunc(strings.ReplaceAll(d, "\n", "\n  "), 1200))
		}
		printed++
	}
	if printed > 25 {
		fmt.Printf("  … %d more violation signatures (replay files written)\n", printed-25)
	}
	r.writeEvidence(violations)
	fmt.Printf("%s %s: cases=%d evaluations=%d nontrivial=%d violations=%d known=%d wall=%.1fs\n", r.Prop, r.Tier, r.Cases, r.Evals, r.NonTriv,
		violations, sum(knownSeen), time.Since(r.Start).Seconds())
	if violations > 0 {
		return 1
	}
	return 0
}

func sum(m map[string]int) int {
	n := 0
	for _, v := range m {
		n += v
	}
	return n
}

func (r *Report) writeEvidence(violations int) {
	cov := map[string]interface{}{}
	var states, trans int64
	var cmds []string
	var zero []string
	for _, t := range r.TLC {
		states += t.Distinct
		trans += t.Generated
		cmds = append(cmds, t.Cmd)
		zero = append(zero, t.ZeroCover...)
	}
	for k, v := range r.Extra {
		cov[k] = v
	}
	if states > 0 {
		cov["states"] = states
		cov["transitions"] = trans
	}
	cov["traces_validated_against_impl"] = r.Traces
	if r.Traces == 0 {
		cov["traces_validated_against_impl"] = r.Cases
	}
	cov["evaluations"] = r.Evals
	cov["distinct_nontrivial"] = r.NonTriv
	cov["rule"] = r.Rule
	if len(r.Samples) == 0 {
		r.Samples = append(r.Samples, "(no sample captured)")
	}
	cov["samples"] = r.Samples
	cov["cases"] = r.Cases
	cov["exhaustive"] = r.Exhaust
	cov["tlc_cmds"] = cmds
	if len(zero) > 0 {
		cov["tlc_actions_never_taken"] = zero
	}
	if len(r.NoteCounts) > 0 {
		cov["notes"] = r.NoteCounts
	}
	if len(r.Masked) > 0 {
		cov["masked_by_known_findings"] = r.Masked
	}
	ev := map[string]interface{}{
		"property_id": r.Prop, "tier": r.Tier, "seed": r.Seed, "level": r.Level, "coverage": cov,
		"assumptions": r.Assume, "wall_s": time.Since(r.Start).Seconds(), "violations": violations,
		"repo_commit": commitOf("/repo"),
	}
	b, _ := json.MarshalIndent(ev, "", " ")
	evDir := "evidence"
	if strings.HasPrefix(r.Prop, "X") { // checks beyond the listed properties keep their evidence apart
		evDir = "evidence-extra"
	}
	if repo := os.Getenv("VERIF_REPO"); repo != "" && repo != "/repo" {
		evDir = filepath.Join(".work", "evidence-mutation") // a mutation experiment: not evidence about /repo
	}
	os.MkdirAll(filepath.Join(verifRoot, evDir), 0o755)
	if err := os.WriteFile(filepath.Join(verifRoot, evDir, r.Prop+".json"), b, 0o644); err != nil {
		infraFail("writing evidence: %v", err)
	}
}
