package main

// Worker pool: cases are evaluated against the real code in child processes, so that a panic, a
// fatal runtime error or a hang is an *observation* about one case and not the end of the run.

import (
	"syscall"
	"bufio"
	"encoding/json"
	"fmt"
	"io"
	"os"
	"os/exec"
	"runtime"
	"runtime/debug"
	"strings"
	"sync"
	"time"
)

// Signature identifies a failing case in spec terms (DESIGN 4.5).
type Signature struct {
	Op      string   `json:"op,omitempty"`
	ShapeL  string   `json:"shape_l,omitempty"`
	ShapeR  string   `json:"shape_r,omitempty"`
	Flags   []string `json:"flags,omitempty"`
	Symptom string   `json:"symptom"`             // mismatch | panic | timeout | crash | unexpected-error | unexpected-value | anomaly | race | rejected
	Frame   string   `json:"frame,omitempty"`     // first frame inside github.com/arr-ai/arrai (panics)
	Msg     string   `json:"msg_class,omitempty"` // message class (panics) / diff class (mismatches)
	Step    string   `json:"step_kind,omitempty"`
}

func (s Signature) Key() string {
	return strings.Join([]string{s.Op, s.ShapeL, s.ShapeR, strings.Join(s.Flags, "+"), s.Symptom, s.Frame, s.Msg, s.Step}, "|")
}

type Fail struct {
	Sig    Signature `json:"sig"`
	Detail string    `json:"detail"`           // human readable: source, expected, got
	Source string    `json:"source,omitempty"` // arr.ai source that reproduces it, when there is one
}

type Obs struct {
	Evals      int      `json:"evals"`                // sub-evaluations against the real code
	NonTrivial int      `json:"nontrivial,omitempty"` // 1 if the case is non-trivial by the property's rule
	Fails      []Fail   `json:"fails,omitempty"`
	Sample     string   `json:"sample,omitempty"`
	Notes      []string `json:"notes,omitempty"`
	Key        string   `json:"key,omitempty"` // identity of the case for distinct counting (optional)
	Data       []string `json:"data,omitempty"` // payload for the orchestrator (e.g. recorded trace lines)
	Restart    bool     `json:"restart,omitempty"` // the worker must be replaced after this case
}

type Handler func(c json.RawMessage) *Obs

var handlers = map[string]Handler{}

// inits run once in a worker before the first case of a handler.
var handlerInit = map[string]func(){}

func workerMain(name string) {
	h, ok := handlers[name]
	if !ok {
		fmt.Fprintf(os.Stderr, "unknown handler %s\n", name)
		os.Exit(3)
	}
	debug.SetMaxStack(256 << 20)
	// the case protocol moves to private descriptors; evaluated code that reads //os.stdin or
	// prints sees /dev/null and stderr instead of the protocol streams
	pin, pout := os.Stdin, os.Stdout
	if inFd, err := syscall.Dup(0); err == nil {
		if outFd, err := syscall.Dup(1); err == nil {
			if null, err := os.Open(os.DevNull); err == nil {
				pin, pout = os.NewFile(uintptr(inFd), "cases"), os.NewFile(uintptr(outFd), "obs")
				_ = syscall.Dup3(int(null.Fd()), 0, 0)
				_ = syscall.Dup3(2, 1, 0)
			}
		}
	}
	if init, ok := handlerInit[name]; ok {
		init()
	}
	in := bufio.NewReaderSize(pin, 1<<20)
	out := bufio.NewWriterSize(pout, 1<<20)
	enc := json.NewEncoder(out)
	for {
		line, err := in.ReadBytes('\n')
		if len(line) > 0 {
			obs := safeHandle(h, line)
			if err := enc.Encode(obs); err != nil {
				os.Exit(4)
			}
			out.Flush()
		}
		if err != nil {
			return
		}
	}
}

func safeHandle(h Handler, line []byte) (obs *Obs) {
	defer func() {
		if e := recover(); e != nil {
			msg, frame := panicInfo(e)
			obs = &Obs{Evals: 1, Fails: []Fail{{Sig: Signature{Symptom: "panic", Frame: frame, Msg: classifyMsg(msg), Step: "handler"},
				Detail: "uncaught panic in handler: " + msg}}}
		}
	}()
	return h(json.RawMessage(line))
}

// panicInfo returns the panic message and the first stack frame inside github.com/arr-ai/arrai.
func panicInfo(e interface{}) (string, string) {
	msg := safeSprint(e)
	buf := make([]byte, 1<<16)
	buf = buf[:runtime.Stack(buf, false)]
	frame := ""
	for _, l := range strings.Split(string(buf), "\n") {
		if strings.HasPrefix(l, "github.com/arr-ai/arrai/") {
			f := strings.TrimPrefix(l, "github.com/arr-ai/arrai/")
			if i := strings.LastIndex(f, "("); i > 0 {
				f = f[:i]
			}
			frame = f
			break
		}
	}
	return msg, frame
}

// classifyMsg reduces a panic or error message to a stable class.
func classifyMsg(m string) string {
	m = strings.ToLower(m)
	for _, k := range []string{"interface conversion", "index out of range", "nil pointer", "superimposed", "unimplemented",
		"slice bounds", "not implemented", "stack overflow", "unhandled", "unsupported", "divide by zero", "negative", "makeslice", "assignment to entry in nil map"} {
		if strings.Contains(m, k) {
			return k
		}
	}
	if len(m) > 40 {
		m = m[:40]
	}
	return m
}

// catch runs f under recover and reports a panic as (msg, frame).
func catch(f func()) (msg, frame string, panicked bool) {
	defer func() {
		if e := recover(); e != nil {
			msg, frame = panicInfo(e)
			panicked = true
		}
	}()
	f()
	return
}

type Pool struct {
	Handler string
	N       int
	Timeout time.Duration // per case
	Env     []string
	Race    bool // use the -race binary
}

type worker struct {
	cmd *exec.Cmd
	in  io.WriteCloser
	out *bufio.Reader
}

func (p *Pool) spawn() *worker {
	bin := os.Args[0]
	if p.Race {
		bin = bin + "-race"
	}
	cmd := exec.Command(bin, "worker", p.Handler)
	cmd.Env = append(os.Environ(), p.Env...)
	if os.Getenv("VERIF_WORKER_STDERR") != "" {
		cmd.Stderr = os.Stderr
	}
	in, err := cmd.StdinPipe()
	must(err)
	out, err := cmd.StdoutPipe()
	must(err)
	must(cmd.Start())
	return &worker{cmd, in, bufio.NewReaderSize(out, 1<<20)}
}

func (w *worker) kill() {
	w.in.Close()
	w.cmd.Process.Kill()
	w.cmd.Wait()
}

// Run feeds every case to a worker and calls sink (serialised) with the case and its observation.
func (p *Pool) Run(cases <-chan []byte, sink func(c []byte, o *Obs)) {
	n := p.N
	if n == 0 {
		n = 16
	}
	timeout := p.Timeout
	if timeout == 0 {
		timeout = 20 * time.Second
	}
	var mu sync.Mutex
	var wg sync.WaitGroup
	hangs := 0
	for i := 0; i < n; i++ {
		wg.Add(1)
		go func() {
			defer wg.Done()
			var w *worker
			defer func() {
				if w != nil {
					w.kill()
				}
			}()
			for c := range cases {
				mu.Lock()
				giveUp := hangs >= 24
				mu.Unlock()
				if giveUp {
					continue // drain: enough hangs/crashes have been seen to report; do not spend hours on the rest
				}
				if w == nil {
					w = p.spawn()
				}
				type res struct {
					line []byte
					err  error
				}
				// ask sends the case and waits for the answer; nil means no answer within d
				ask := func(ww *worker, d time.Duration) *res {
					ch := make(chan res, 1)
					go func() {
						if _, err := ww.in.Write(append(append([]byte{}, c...), '\n')); err != nil {
							ch <- res{nil, err}
							return
						}
						l, err := ww.out.ReadBytes('\n')
						ch <- res{l, err}
					}()
					select {
					case r := <-ch:
						return &r
					case <-time.After(d):
						return nil
					}
				}
				var obs *Obs
				r := ask(w, timeout)
				if r == nil {
					// no answer: before calling it a hang, give the case a fresh worker and three times the
					// budget (a loaded machine must not turn into a violation)
					w.kill()
					w = p.spawn()
					r = ask(w, 3*timeout)
					if r == nil {
						w.kill()
						w = nil
						obs = &Obs{Evals: 1, Fails: []Fail{{Sig: Signature{Symptom: "timeout"}, Detail: fmt.Sprintf("no answer within %v, nor within %v on a fresh worker (hang)", timeout, 3*timeout)}}}
					}
				}
				if r != nil {
					if r.err != nil || len(r.line) == 0 {
						w.kill()
						w = nil
						obs = &Obs{Evals: 1, Fails: []Fail{{Sig: Signature{Symptom: "crash"}, Detail: "worker process died while evaluating the case (fatal runtime error)"}}}
					} else {
						obs = &Obs{}
						if err := json.Unmarshal(r.line, obs); err != nil {
							infraFail("bad observation from worker: %v: %s", err, trunc(string(r.line), 300))
						}
						if obs.Restart { // the worker left a runaway goroutine behind
							w.kill()
							w = nil
						}
					}
				}
				mu.Lock()
				if len(obs.Fails) > 0 && (obs.Fails[0].Sig.Symptom == "timeout" || obs.Fails[0].Sig.Symptom == "crash" || obs.Fails[0].Sig.Symptom == "hang") {
					hangs++
					if hangs == 24 {
						fmt.Println("  NOTE: 24 cases hung or crashed their worker; the remaining cases of this run are skipped")
					}
				}
				sink(c, obs)
				mu.Unlock()
			}
		}()
	}
	wg.Wait()
}

// safeSprint renders a panic value or error.  Rendering a wbnf ParseError can take exponential time
// (a known finding of C10), so the rendering runs aside and is abandoned after two seconds.
func safeSprint(e interface{}) string {
	done := make(chan string, 1)
	go func() {
		defer func() {
			if r := recover(); r != nil {
				done <- "(unprintable)"
			}
		}()
		done <- fmt.Sprint(e)
	}()
	select {
	case m := <-done:
		return m
	case <-time.After(2 * time.Second):
		return fmt.Sprintf("(%T: message not rendered within 2s)", e)
	}
}
