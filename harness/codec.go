package main

// C13: JSON / YAML / CSV / bits / wire round trips against the Codec spec.

import (
	"encoding/json"
	"fmt"
	"math"
	"reflect"
	"sort"

	"gopkg.in/yaml.v3"

	"github.com/arr-ai/arrai/rel"
)

type codecDoc struct {
	K  string          `json:"k"`
	B  bool            `json:"b"`
	V  json.RawMessage `json:"v"`
	Q  []int           `json:"q"`
	Xs []codecDoc      `json:"xs"`
	Kv []struct {
		Key []int    `json:"key"`
		Val codecDoc `json:"val"`
	} `json:"kv"`
}

func cps(q []int) string {
	rs := make([]rune, len(q))
	for i, c := range q {
		rs[i] = rune(c)
	}
	return string(rs)
}

func (d *codecDoc) toGo() interface{} {
	switch d.K {
	case "null":
		return nil
	case "bool":
		return d.B
	case "num":
		return MustParseAV(d.V).N
	case "str":
		return cps(d.Q)
	case "arr":
		out := make([]interface{}, len(d.Xs))
		for i := range d.Xs {
			out[i] = d.Xs[i].toGo()
		}
		return out
	case "obj":
		out := map[string]interface{}{}
		for _, e := range d.Kv {
			out[cps(e.Key)] = e.Val.toGo()
		}
		return out
	}
	panic("bad doc kind " + d.K)
}

// normalise decoded Go data (json numbers, yaml ints and map types) for comparison
func normGo(x interface{}) interface{} {
	switch v := x.(type) {
	case int:
		return float64(v)
	case int64:
		return float64(v)
	case uint64:
		return float64(v)
	case json.Number:
		f, _ := v.Float64()
		return f
	case []interface{}:
		out := make([]interface{}, len(v))
		for i := range v {
			out[i] = normGo(v[i])
		}
		return out
	case map[string]interface{}:
		out := map[string]interface{}{}
		for k, e := range v {
			out[k] = normGo(e)
		}
		return out
	case map[interface{}]interface{}:
		out := map[string]interface{}{}
		for k, e := range v {
			out[fmt.Sprint(k)] = normGo(e)
		}
		return out
	}
	return x
}

func init() {
	handlers["codec"] = handleCodec
	props["C13"] = func(rc *RunCtx) int {
		rep := NewReport("C13", rc.Tier, rc.Seed, "model_checking")
		rep.Rule = "TLC enumerates abstract JSON/YAML documents (null, booleans, integers incl. negative, a fraction, a large integer, strings incl. empty, NUL, non-ASCII and escape characters, arrays and objects incl. empty ones and empty / non-ASCII keys, nested) with the value the documented strict tagging maps each to (TLC checks that the tagging is injective and that no non-document value collides with a document), values that are NOT documents, string matrices for CSV (cells with commas, quotes, newlines, leading blanks, empty), bit-position sets up to bit 52, and a pool of values for the observer wire format. The harness serialises each document with Go's encoding/json and yaml.v3, decodes it with //encoding.*.decode, compares with the spec value, encodes it back, re-parses the bytes and compares contents, and checks decode(encode(decode(d))) = decode(d); non-documents must be refused by the encoders; CSV, bits and wire are checked for their round-trip identities. Non-trivial: documents with at least one container or string."
		rep.Assume = []string{"Go's encoding/json, yaml.v3 and encoding/csv are the reference serialisers", "numbers are integers below 2^31 and halves (TLC integers)"}
		rep.Exhaust = true
		runTLCToPool(rep, rc, []*TLCRun{{Module: "Codec", Cfg: tierPick(rc.Tier, "Codec_quick.cfg", "Codec_thorough.cfg")}}, &Pool{Handler: "codec"})
		return rep.Finish()
	}
}

func handleCodec(raw json.RawMessage) *Obs {
	var cs struct {
		C struct {
			K string          `json:"k"`
			D codecDoc        `json:"d"`
			V json.RawMessage `json:"v"`
			M [][][]int       `json:"m"`
			S []int           `json:"s"`
		} `json:"c"`
	}
	if err := json.Unmarshal(raw, &cs); err != nil {
		return &Obs{Fails: []Fail{{Sig: Signature{Symptom: "bad-case"}, Detail: err.Error()}}}
	}
	c := cs.C
	obs := &Obs{Key: string(raw)}
	fail := func(op, shape string, d diffInfo, src string) {
		obs.Fails = append(obs.Fails, Fail{Sig: Signature{Op: op, ShapeL: shape, Symptom: d.symptom, Msg: d.msg, Frame: d.frame}, Detail: src + "\n" + d.detail, Source: src})
	}
	str := func(s string) rel.Value { return rel.NewString([]rune(s)) }
	switch c.K {
	case "doc":
		want := MustParseAV(c.V)
		golden := normGo(c.D.toGo())
		if c.D.K == "arr" || c.D.K == "obj" || c.D.K == "str" {
			obs.NonTrivial = 1
		}
		jb, _ := json.Marshal(c.D.toGo())
		yb, _ := yaml.Marshal(c.D.toGo())
		obs.Sample = "document " + string(jb) + " <-> " + want.RenderSugar()
		for _, codec := range []struct {
			name string
			text []byte
			parse func([]byte) (interface{}, error)
		}{
			{"json", jb, func(b []byte) (interface{}, error) { var x interface{}; err := json.Unmarshal(b, &x); return x, err }},
			{"yaml", yb, func(b []byte) (interface{}, error) { var x interface{}; err := yaml.Unmarshal(b, &x); return x, err }},
		} {
			src := fmt.Sprintf("//encoding.%s.decode(%q)", codec.name, codec.text)
			obs.Evals++
			dec := evalTemplate("//encoding."+codec.name+".decode(x)", map[string]rel.Value{"x": str(string(codec.text))})
			if d := compare(want, dec); !d.ok {
				fail(codec.name+".decode", c.D.K, d, src)
				continue
			}
			obs.Evals++
			enc := evalTemplate("//encoding."+codec.name+".encode(v)", map[string]rel.Value{"v": dec.V})
			if enc.Kind() != "value" {
				fail(codec.name+".encode", c.D.K, compare(want, enc), "//encoding."+codec.name+".encode("+want.RenderSugar()+")")
				continue
			}
			var out []byte
			switch b := enc.V.(type) {
			case rel.Bytes:
				out = b.Bytes()
			case rel.String:
				out = []byte(b.String())
			}
			back, perr := codec.parse(out)
			if perr != nil || !reflect.DeepEqual(normGo(back), golden) {
				fail(codec.name+".encode", c.D.K, diffInfo{symptom: "mismatch", msg: "content-differs",
					detail: fmt.Sprintf("document %s was re-encoded as %q (parse error: %v)", jb, out, perr)}, src)
				continue
			}
			obs.Evals++
			dec2 := evalTemplate("//encoding."+codec.name+".decode(x)", map[string]rel.Value{"x": enc.V})
			if d := compare(want, dec2); !d.ok {
				fail(codec.name+".decode(encode(decode))", c.D.K, d, src)
			}
		}
	case "notdoc":
		v := MustParseAV(c.V)
		var val rel.Value
		catch(func() { val = v.Build() })
		obs.NonTrivial = 1
		obs.Sample = "not a document: " + v.RenderSugar()
		for _, name := range []string{"json", "yaml"} {
			obs.Evals++
			enc := evalTemplate("//encoding."+name+".encode(v)", map[string]rel.Value{"v": val})
			if enc.Kind() == "value" {
				fail(name+".encode", "notdoc:"+v.Shape().Class, diffInfo{symptom: "unexpected-value", msg: "non-document-encoded",
					detail: "a value that is not the image of any document was encoded as " + reprSafe(enc.V) + " instead of being refused"}, "//encoding."+name+".encode("+v.RenderSugar()+")")
			} else if enc.Kind() == "panic" {
				fail(name+".encode", "notdoc:"+v.Shape().Class, compare(EmptyAV, enc), "//encoding."+name+".encode("+v.RenderSugar()+")")
			}
		}
	case "csv":
		rows := make([]*AV, len(c.M))
		for i, r := range c.M {
			cells := make([]*AV, len(r))
			for j, cell := range r {
				cells[j] = Tup(map[string]*AV{"at": Num(float64(j)), "it": seqAVcp(cell)})
			}
			rows[i] = Tup(map[string]*AV{"at": Num(float64(i)), "it": SetOf(cells...)})
		}
		m := SetOf(rows...)
		obs.NonTrivial = 1
		obs.Sample = "csv matrix " + m.RenderSugar()
		var mv rel.Value
		catch(func() { mv = m.Build() })
		obs.Evals++
		enc := evalTemplate("//encoding.csv.encode(m)", map[string]rel.Value{"m": mv})
		if enc.Kind() != "value" {
			fail("csv.encode", "matrix", compare(m, enc), "//encoding.csv.encode("+m.RenderSugar()+")")
			break
		}
		obs.Evals++
		dec := evalTemplate("//encoding.csv.decode(x)", map[string]rel.Value{"x": enc.V})
		if d := compare(m, dec); !d.ok {
			fail("csv.decode(encode)", "matrix", d, fmt.Sprintf("//encoding.csv.decode(//encoding.csv.encode(%s)); encoded as %s", m.RenderSugar(), reprSafe(enc.V)))
		}
	case "bits":
		n := 0.0
		elems := make([]*AV, len(c.S))
		for i, p := range c.S {
			n += math.Pow(2, float64(p))
			elems[i] = Num(float64(p))
		}
		sort.Ints(c.S)
		set := SetOf(elems...)
		obs.NonTrivial = 1
		obs.Sample = fmt.Sprintf("bits %v <-> %v", c.S, n)
		var sv rel.Value
		catch(func() { sv = set.Build() })
		obs.Evals += 2
		if d := compare(Num(n), evalTemplate("//bits.mask(s)", map[string]rel.Value{"s": sv})); !d.ok {
			fail("bits.mask", "bitset", d, "//bits.mask("+set.Render()+")")
		}
		if d := compare(set, evalTemplate("//bits.set(n)", map[string]rel.Value{"n": rel.NewNumber(n)})); !d.ok {
			fail("bits.set", "bitset", d, fmt.Sprintf("//bits.set(%v)", n))
		}
	case "wire":
		v := MustParseAV(c.V)
		var val rel.Value
		if _, _, p := catch(func() { val = v.Build() }); p {
			break
		}
		obs.NonTrivial = 1
		obs.Sample = "wire " + v.RenderSugar()
		var o Outcome
		var wire []byte
		msg, frame, p := catch(func() {
			wire = rel.MarshalToJSON(val)
			o.V, o.Err = rel.UnmarshalFromJSON(wire)
		})
		if p {
			o = Outcome{Panic: msg, Frame: frame}
		}
		obs.Evals++
		sh := v.Shape()
		if d := compare(v, o); !d.ok {
			obs.Fails = append(obs.Fails, Fail{Sig: Signature{Op: "wire", ShapeL: sh.Class, Flags: sh.Flags(), Symptom: d.symptom, Msg: d.msg, Frame: d.frame},
				Detail: fmt.Sprintf("rel.UnmarshalFromJSON(rel.MarshalToJSON(%s)); wire form %s\n%s", v.RenderSugar(), trunc(string(wire), 300), d.detail)})
		}
	}
	return obs
}

func seqAVcp(q []int) *AV {
	elems := make([]*AV, len(q))
	for i, c := range q {
		elems[i] = Tup(map[string]*AV{"at": Num(float64(i)), "ch": Num(float64(c))})
	}
	return SetOf(elems...)
}
