package main

// Replay of Relational cases (C04) against the real code.

import (
	"encoding/json"
	"fmt"
	"sort"
	"strings"

	"github.com/arr-ai/arrai/rel"
)

type rStep struct {
	K     string   `json:"k"`
	Op    string   `json:"op"`
	I     int      `json:"i"`
	J     int      `json:"j"`
	Attrs []string `json:"attrs"`
}

type rCase struct {
	Prog []rStep           `json:"prog"`
	Env  []json.RawMessage `json:"env"`
}

type rRes struct {
	Joins []struct {
		Op string
		R  json.RawMessage
	}
	Nests []struct {
		Attrs []string
		R     json.RawMessage
		Back  json.RawMessage
	}
	Ranks []struct {
		K string
		R json.RawMessage
	}
}

func init() {
	handlers["relational-c04"] = handleRelational
	props["C04"] = func(rc *RunCtx) int {
		rep := NewReport("C04", rc.Tier, rc.Seed, "model_checking")
		rep.Rule = "TLC enumerates every ordered pair of relations over all headings of up to MaxAttrs attributes from an alphabet that includes @, @item, @char, @value (so arrays, strings and dicts appear as binary relations), up to MaxRows rows, and computes all eight join operators from the set-comprehension definition, nest for every proper attribute subset (both |..| and ~|..| spellings), unnest of each nest, and rank by every numeric attribute; chains whose operands are earlier join/nest results are simulated. Relations are realised in several recipes including every column order of the relation literal. Non-trivial: both relations non-empty; distinct = distinct (A, B)."
		rep.Assume = append([]string{"rank keys are numeric so the expected rank does not depend on which total order < is"}, setAlgAssume...)
		rep.Exhaust = true
		runs := []*TLCRun{{Module: "Relational", Cfg: tierPick(rc.Tier, "Relational_quick.cfg", "Relational_thorough.cfg")}}
		if rc.Tier == "thorough" {
			runs = append(runs, &TLCRun{Module: "Relational", Cfg: "Relational_three.cfg"})
		}
		runs = append(runs, &TLCRun{Module: "Relational", Cfg: "Relational_chain.cfg", Simulate: tierPick(rc.Tier, "num=2000", "num=60000"), Depth: 6, Seed: rc.Seed + 4, Workers: 1})
		runTLCToPool(rep, rc, runs, &Pool{Handler: "relational-c04"})
		return rep.Finish()
	}
}

func attrList(ids []string) string {
	ns := make([]string, len(ids))
	for i, a := range ids {
		ns[i] = specToName(a)
	}
	sort.Strings(ns)
	return strings.Join(ns, ", ")
}

func headingOf(a *AV) []string {
	if names, ok := a.relView(); ok {
		return names
	}
	return nil
}

func handleRelational(raw json.RawMessage) *Obs {
	var cs rCase
	if err := json.Unmarshal(raw, &cs); err != nil {
		return &Obs{Fails: []Fail{{Sig: Signature{Symptom: "bad-case"}, Detail: err.Error()}}}
	}
	return handleRelationalMode("c01", raw, &cs)
}

func handleRelationalMode(mode string, raw json.RawMessage, csp *rCase) *Obs {
	cs := *csp
	c := &saCtx{mode: mode, obs: &Obs{}}
	if cs.Prog[len(cs.Prog)-1].K != "allops" {
		c.relChain(&cs)
		return c.obs
	}
	a := MustParseAV(cs.Env[0])
	b := MustParseAV(cs.Env[1])
	var r rRes
	if err := json.Unmarshal(cs.Env[2], &r); err != nil {
		panic(err)
	}
	c.obs.Key = a.Canon() + "|" + b.Canon()
	if len(a.S) > 0 && len(b.S) > 0 {
		c.obs.NonTrivial = 1
	}
	c.obs.Sample = fmt.Sprintf("A = %s ; B = %s ; A op B for 8 join operators, A nest |..|n / ~|..|n, unnest, rank", a.RenderSugar(), b.RenderSugar())
	ras := c.realiseAll(a)
	rbs := c.realiseAll(b)
	if len(ras) == 0 || len(rbs) == 0 {
		return c.obs
	}
	limit := tierPick(verifTier, 4, 8)
	h := hashOf(verifSeed, c.obs.Key)
	for n := 0; n < limit; n++ {
		x := ras[(int(h%uint64(len(ras)))+n)%len(ras)]
		y := rbs[(int((h>>20)%uint64(len(rbs)))+n*3)%len(rbs)]
		vars := map[string]rel.Value{"a": x.v, "b": y.v}
		tag := fmt.Sprintf("let a = %s; let b = %s; ", x.src, y.src)
		check := func(op, src string, e, rr *AV, shapeR string) {
			c.obs.Evals++
			if d := compare(e, evalTemplate(src, vars)); !d.ok {
				c.fail(op, a, rr, e, shapeR, d, tag+src)
			}
		}
		for _, q := range r.Joins {
			check(q.Op, "a "+q.Op+" b", MustParseAV(q.R), b, "")
		}
		if n >= 2 {
			continue // nest/rank depend on A only: two recipes are enough
		}
		hd := headingOf(a)
		for _, q := range r.Nests {
			check("nest", "a nest |"+attrList(q.Attrs)+"|n", MustParseAV(q.R), nil, "-")
			var rest []string
			for _, x := range hd {
				if !contains(q.Attrs, x) {
					rest = append(rest, x)
				}
			}
			check("nest~", "a nest ~|"+attrList(rest)+"|n", MustParseAV(q.R), nil, "-")
			check("unnest", "(a nest |"+attrList(q.Attrs)+"|n) unnest n", MustParseAV(q.Back), nil, "-")
		}
		for _, q := range r.Ranks {
			check("rank", "a rank (r: ."+specToName(q.K)+")", MustParseAV(q.R), nil, "-")
		}
	}
	return c.obs
}

func (c *saCtx) relChain(cs *rCase) {
	n := len(cs.Prog)
	exp := make([]*AV, n)
	for i := range exp {
		exp[i] = MustParseAV(cs.Env[i])
	}
	vals := make([]rel.Value, n)
	c.obs.Key = string(mustJSON(cs.Prog)) + exp[0].Canon() + exp[1].Canon()
	c.obs.NonTrivial = 1
	var lines []string
	for i, st := range cs.Prog {
		var o Outcome
		var src, opname string
		var l, r *AV
		switch st.K {
		case "lit":
			rs := []string{}
			for _, rc := range allRecipes {
				if rc == "api" || exp[i].RenderRecipe(rc) != "" {
					rs = append(rs, rc)
				}
			}
			rc := rs[hashOf(verifSeed, i, exp[i].Canon())%uint64(len(rs))]
			o, src, _ = realise(exp[i], rc)
			opname, l = "lit:"+rc, exp[i]
		case "join":
			l, r = exp[st.I-1], exp[st.J-1]
			opname = st.Op
			src = fmt.Sprintf("v%d %s v%d", st.I, st.Op, st.J)
			o = evalTemplate("a "+st.Op+" b", map[string]rel.Value{"a": vals[st.I-1], "b": vals[st.J-1]})
		case "nest":
			l = exp[st.I-1]
			opname = "nest"
			t := "a nest |" + attrList(st.Attrs) + "|n"
			src = strings.Replace(t, "a ", fmt.Sprintf("v%d ", st.I), 1)
			o = evalTemplate(t, map[string]rel.Value{"a": vals[st.I-1]})
		case "unnest":
			l = exp[st.I-1]
			opname = "unnest"
			src = fmt.Sprintf("v%d unnest n", st.I)
			o = evalTemplate("a unnest n", map[string]rel.Value{"a": vals[st.I-1]})
		}
		lines = append(lines, fmt.Sprintf("let v%d = %s;", i+1, src))
		c.obs.Evals++
		if d := compare(exp[i], o); !d.ok {
			if c.mode != "c03" {
				c.fail(opname, l, r, exp[i], "", d, strings.Join(lines, " "))
			}
			break
		}
		vals[i] = o.V
		if c.mode == "c03" {
			for j := 0; j < i; j++ {
				c.obs.Evals++
				if dj := compare(exp[j], Outcome{V: vals[j]}); !dj.ok {
					dj.symptom = "mutated"
					c.fail(opname, exp[j], r, exp[j], "", dj, strings.Join(lines, " ")+fmt.Sprintf("  -- v%d changed after step %d", j+1, i+1))
				}
			}
		}
	}
	c.obs.Sample = strings.Join(lines, " ")
}
