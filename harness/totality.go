package main

// C10: every program ends in a value or an error (Totality spec).

import (
	"context"
	"encoding/json"
	"fmt"
	"os"
	"path/filepath"
	"sort"
	"strings"
	"time"

	"github.com/arr-ai/arrai/pkg/arraictx"
	"github.com/arr-ai/arrai/pkg/importcache"
	"github.com/arr-ai/arrai/rel"
	"github.com/arr-ai/arrai/syntax"
)

var totKinds = map[string]string{
	"num": "1", "frac": "1.5", "neg": "-2", "big": "1e300", "str": `"ab"`, "offstr": `(2\"ab")`, "bytes": "<<1, 2>>",
	"offbytes": `(2\<<1>>)`, "arr": "[1, 2]", "sparse": "[1, , 3]", "offarr": `(2\[1])`, "dict": `{"k": 1}`,
	"mdict": "({1: 2} | {1: 3})", "tup": "(a: 1)", "etup": "()", "ctup": "(@: 0, @char: 97)", "itup": "(@: 0, @item: 1)",
	"rel": "{|a, b| (1, 2), (3, 4)}", "set": "{1, 2}", "mixset": `{1, "a", (a: 1), [2]}`, "empty": "{}", "true": "true",
	"fn": `(\x x)`, "nat": "//str.lower", "nested": "{{1}, {}}", "setarr": "{[1], [2, 3]}",
	"badctup": `(@: "x", @char: 1)`, "oddname": "('a, b': 1)",
}

func totBin(op, a, b string) string {
	switch op {
	case "call":
		return a + "(" + b + ")"
	case "if":
		return a + " if " + b + " else 1"
	case "?:":
		return a + "(" + b + ")?:0"
	case "filter":
		return a + " filter . {_: " + b + "}"
	case "->":
		return a + " -> " + b
	}
	return a + " " + op + " " + b
}

func totUn(op, a string) string {
	switch op {
	case "-", "+", "!", "*", "^", "=>", ">>", ":>":
		return op + " " + a
	case "count", "single":
		return a + " " + op
	case "nest":
		return a + " nest |a|n"
	case "nestinv":
		return a + " nest ~|a|n"
	case "unnest":
		return a + " unnest a"
	case "dot":
		return a + ".a"
	case "dotstr":
		return a + `."a"`
	case "call0":
		return a + "(0)"
	case "callk":
		return a + `("k")`
	case "slice":
		return a + "(0:1)"
	case "slice3":
		return a + "(0:2:2)"
	case "slicefrom":
		return a + "(1:)"
	case "tupleof":
		return "(x: " + a + ")"
	case "setof":
		return "{" + a + ", 1}"
	case "arrayof":
		return "[" + a + ", 1]"
	case "dictkey":
		return "{" + a + ": 1, 2: 3}"
	case "dictval":
		return "{1: " + a + "}"
	case "interp":
		return `$"${` + a + `}"`
	case "interpfmt":
		return `$"${` + a + `::, }"`
	case "bytesof":
		return "<<(" + a + ")>>"
	case "let":
		return "let x = " + a + "; x"
	case "letpat":
		return "let [x, ...] = " + a + "; x"
	case "cond":
		return "cond {" + a + ": 1, _: 2}"
	case "condpat":
		return "cond " + a + " {[x]: x, (a: x): x, {x}: x, _: 0}"
	case "fnof":
		return `(\x x)(` + a + ")"
	case "rel1":
		return "{|a| (" + a + ")}"
	case "relwith":
		return "{" + a + ", (a: 1, b: 2)}"
	}
	panic("unknown unary form " + op)
}

// callable members of the real safe library, minus the ones that reach outside the process
var totLibPaths []string

func totLib() []string {
	if totLibPaths != nil {
		return totLibPaths
	}
	skip := map[string]bool{"os": true, "net": true, "deprecated": true, "log": true, "std": true, "test": true, "arrai": true}
	var walk func(path string, v rel.Value)
	walk = func(path string, v rel.Value) {
		switch x := v.(type) {
		case rel.Tuple:
			for e := x.Enumerator(); e.MoveNext(); {
				n, a := e.Current()
				if path == "" && skip[n] {
					continue
				}
				if strings.ContainsAny(n, "&@") || (path == "fn" && strings.HasPrefix(n, "fix")) {
					continue // lazily evaluated attributes; the fixed-point combinators (recursion is outside the property)
				}
				p := n
				if path != "" {
					p = path + "." + n
				}
				walk(p, a)
			}
		case *rel.NativeFunction, rel.Closure:
			totLibPaths = append(totLibPaths, path)
		}
	}
	walk("", syntax.SafeStdScopeTuple())
	sort.Strings(totLibPaths)
	return totLibPaths
}

type totCase struct {
	C struct {
		K    string   `json:"k"`
		Op   string   `json:"op"`
		A    string   `json:"a"`
		B    string   `json:"b"`
		Args []string `json:"args"`
		Toks []string `json:"toks"`
	} `json:"c"`
}

type totProg struct {
	src, op, l, r string
}

var totDir string

func totInit() {
	totDir = os.Getenv("VERIF_TOT_DIR")
	if totDir != "" {
		os.Chdir(totDir) //nolint:errcheck
	}
	syntax.StdScope() // the library is parsed once per process: not part of any case's budget
}

func handleTotality(raw json.RawMessage) *Obs {
	var tc totCase
	if err := json.Unmarshal(raw, &tc); err != nil {
		return &Obs{Fails: []Fail{{Sig: Signature{Symptom: "bad-case"}, Detail: err.Error()}}}
	}
	c := tc.C
	var progs []totProg
	switch c.K {
	case "bin":
		progs = append(progs, totProg{totBin(c.Op, totKinds[c.A], totKinds[c.B]), c.Op, c.A, c.B})
	case "un":
		progs = append(progs, totProg{totUn(c.Op, totKinds[c.A]), "un:" + c.Op, c.A, ""})
	case "lib":
		var as []string
		for _, k := range c.Args {
			as = append(as, totKinds[k])
		}
		for _, p := range totLib() {
			progs = append(progs, totProg{"//" + p + "(" + strings.Join(as, ", ") + ")", "lib:" + p, strings.Join(c.Args, ","), ""})
		}
	case "src":
		progs = append(progs, totProg{strings.Join(c.Toks, " "), "src", "", ""})
		if len(c.Toks) > 1 {
			progs = append(progs, totProg{strings.Join(c.Toks, ""), "src", "", ""})
		}
	case "text": // replay of a literal source
		progs = append(progs, totProg{c.Op, "src", "", ""})
	}
	obs := &Obs{NonTrivial: 1}
	for _, p := range progs {
		obs.Evals++
		if !totRun(p, obs) {
			obs.Restart = true
			break
		}
	}
	if len(progs) > 0 {
		obs.Sample = progs[0].src
	}
	return obs
}

// totRun evaluates one program the way the CLI does (syntax.EvaluateExpr, then printing the value or
// the error) under a wall-clock budget.  It returns false when a runaway goroutine was left behind.
func totRun(p totProg, obs *Obs) bool {
	type out struct {
		v            rel.Value
		err          error
		msg, frame   string
		panicked     bool
		printed      string
		printPanic   string
		printFrame   string
		errRendered  bool
		renderPanic  string
		renderFrame  string
	}
	ch := make(chan out, 1)
	go func() {
		var o out
		// one import cache for the whole case, as an embedding program or the server would hold it
		ctx := importcache.WithNewImportCache(arraictx.InitRunCtx(context.Background()))
		o.msg, o.frame, o.panicked = catch(func() { o.v, o.err = syntax.EvaluateExpr(ctx, filepath.Join(totDir, "main.arrai"), p.src) })
		if !o.panicked && strings.Contains(p.src, "//{") {
			// the same source again through the same cache: a failed import must fail again, not block
			o.msg, o.frame, o.panicked = catch(func() { o.v, o.err = syntax.EvaluateExpr(ctx, filepath.Join(totDir, "main.arrai"), p.src) })
		}
		switch {
		case o.panicked:
		case o.err != nil:
			m, f, pp := catch(func() { _ = o.err.Error() })
			o.errRendered = !pp
			o.renderPanic, o.renderFrame = m, f
		default:
			m, f, pp := catch(func() { o.printed = o.v.String() })
			if pp {
				o.printPanic, o.printFrame = m, f
				if o.printPanic == "" {
					o.printPanic = "panic"
				}
			}
		}
		ch <- o
	}()
	fail := func(symptom, msg, frame, detail string) {
		obs.Fails = append(obs.Fails, Fail{Sig: Signature{Op: p.op, ShapeL: p.l, ShapeR: p.r, Symptom: symptom, Msg: msg, Frame: frame},
			Detail: fmt.Sprintf("%s\n%s", p.src, detail), Source: p.src})
	}
	var o out
	select {
	case o = <-ch:
	case <-time.After(6 * time.Second):
		// a loaded machine can stretch a first evaluation past the budget: only an evaluation that is
		// still running after 30 s is called a hang
		select {
		case o = <-ch:
			obs.Notes = append(obs.Notes, "slow-but-finished")
		case <-time.After(24 * time.Second):
			fail("hang", "", "", "no value, error or rendered message within 30s")
			return false
		}
	}
	{
		switch {
		case o.panicked:
			fail("panic", classifyMsg(o.msg), o.frame, "uncaught panic: "+trunc(o.msg, 300))
		case o.err != nil && !o.errRendered:
			fail("panic", "error-render:"+classifyMsg(o.renderPanic), o.renderFrame, "the error's message panics when it is rendered: "+trunc(o.renderPanic, 300))
		case o.err != nil:
			obs.Notes = append(obs.Notes, "error")
		case o.printPanic != "":
			fail("panic", "print:"+classifyMsg(o.printPanic), o.printFrame, "the value panics when it is printed: "+trunc(o.printPanic, 300))
		default:
			obs.Notes = append(obs.Notes, "value")
		}
		return true
	}
}

func init() {
	handlers["totality"] = handleTotality
	handlerInit["totality"] = totInit
	props["C10"] = func(rc *RunCtx) int {
		rep := NewReport("C10", rc.Tier, rc.Seed, "exploration")
		rep.Rule = "TLC enumerates the space of the Totality spec: every binary operator of the grammar (59 forms) on every ordered pair of 28 operand kinds, 35 unary / postfix / call / slice / access / literal-construction / binding forms on every kind, every tuple of 1..2 kinds (thorough: 1..3 over 13 kinds) to which the harness applies every callable member of the real safe library, and every string of up to 3 (thorough: 4, sampled) tokens over a 53-token alphabet of delimiters, operators, keywords and fragments, joined with and without spaces. Each program goes through syntax.EvaluateExpr as the CLI does, then the value is printed or the error rendered, under a budget (6 s, confirmed at 30 s). Violation: an uncaught panic (in evaluation, in printing the value or in rendering the error) or no outcome within the budget; the signature is (form, operand kinds, panic message class, first arr.ai frame)."
		rep.Assume = []string{"30 s without an outcome on these tiny inputs counts as a hang (evaluations slower than 6 s are counted)", "library members that reach outside the process (//os, //net, //log, //deprecated) are excluded"}
		dir := filepath.Join(verifRoot, ".work", fmt.Sprintf("tot-%d", os.Getpid()))
		if err := os.MkdirAll(dir, 0o755); err != nil {
			infraFail("C10: %v", err)
		}
		defer os.RemoveAll(dir)
		for n, c := range map[string]string{"go.mod": "module tot\n", "f.arrai": "1\n", "bad.arrai": "(\n"} {
			if err := os.WriteFile(filepath.Join(dir, n), []byte(c), 0o644); err != nil {
				infraFail("C10: %v", err)
			}
		}
		os.Setenv("VERIF_TOT_DIR", dir)
		var runs []*TLCRun
		if rc.Tier == "quick" {
			runs = []*TLCRun{{Module: "Totality", Cfg: "Totality_bin.cfg"}, {Module: "Totality", Cfg: "Totality_un.cfg"},
				{Module: "Totality", Cfg: "Totality_lib2.cfg"},
				{Module: "Totality", Cfg: "Totality_src2.cfg"},
				{Module: "Totality", Cfg: "Totality_src3.cfg", Simulate: "num=20000", Depth: 3, Seed: rc.Seed + 2, Workers: 1}}
		} else {
			runs = []*TLCRun{{Module: "Totality", Cfg: "Totality_bin.cfg"}, {Module: "Totality", Cfg: "Totality_un.cfg"},
				{Module: "Totality", Cfg: "Totality_lib2.cfg"}, {Module: "Totality", Cfg: "Totality_lib3.cfg"},
				{Module: "Totality", Cfg: "Totality_src3.cfg"},
				{Module: "Totality", Cfg: "Totality_src4.cfg", Simulate: "num=150000", Depth: 8, Seed: rc.Seed + 2, Workers: 1}}
		}
		for _, r := range runs {
			r.Timeout = 60 * 60e9
		}
		runTLCToPool(rep, rc, runs, &Pool{Handler: "totality", Timeout: 10 * 60e9})
		return rep.Finish()
	}
}
