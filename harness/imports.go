package main

// C16: local import paths stay inside the module, spellings agree, cycles end in an error.

import (
	"context"
	"encoding/json"
	"fmt"
	"os"
	"sort"
	"strings"
	"sync"
	"time"

	"github.com/spf13/afero"

	"github.com/arr-ai/arrai/pkg/arraictx"
	"github.com/arr-ai/arrai/pkg/ctxfs"
	"github.com/arr-ai/arrai/pkg/importcache"
	"github.com/arr-ai/arrai/rel"
	"github.com/arr-ai/arrai/syntax"
)

// recFs records which paths are opened, created, removed or written.
type recFs struct {
	afero.Fs
	mu    sync.Mutex
	Opens []string
	Muts  []string
	Stats []string
}

func (r *recFs) Stat(name string) (os.FileInfo, error) {
	r.note(&r.Stats, name)
	return r.Fs.Stat(name)
}

func (r *recFs) note(list *[]string, name string) {
	r.mu.Lock()
	*list = append(*list, name)
	r.mu.Unlock()
}
func (r *recFs) Open(name string) (afero.File, error) {
	r.note(&r.Opens, name)
	return r.Fs.Open(name)
}
func (r *recFs) OpenFile(name string, flag int, perm os.FileMode) (afero.File, error) {
	if flag&(os.O_WRONLY|os.O_RDWR|os.O_CREATE|os.O_TRUNC|os.O_APPEND) != 0 {
		r.note(&r.Muts, name)
	} else {
		r.note(&r.Opens, name)
	}
	return r.Fs.OpenFile(name, flag, perm)
}
func (r *recFs) Create(name string) (afero.File, error) {
	r.note(&r.Muts, name)
	return r.Fs.Create(name)
}
func (r *recFs) Mkdir(name string, perm os.FileMode) error {
	r.note(&r.Muts, name)
	return r.Fs.Mkdir(name, perm)
}
func (r *recFs) MkdirAll(name string, perm os.FileMode) error {
	r.note(&r.Muts, name)
	return r.Fs.MkdirAll(name, perm)
}
func (r *recFs) Remove(name string) error {
	r.note(&r.Muts, name)
	return r.Fs.Remove(name)
}
func (r *recFs) RemoveAll(name string) error {
	r.note(&r.Muts, name)
	return r.Fs.RemoveAll(name)
}
func (r *recFs) Rename(a, b string) error {
	r.note(&r.Muts, a)
	r.note(&r.Muts, b)
	return r.Fs.Rename(a, b)
}

var segText = map[string]string{"up": "..", "dot": ".", "nil": "", "sx": " x", "xs": "x ", "sup": " ..", "ups": ".. "}

func segName(id string) string {
	if t, ok := segText[id]; ok {
		return t
	}
	return id
}

type impCase struct {
	C struct {
		K      string           `json:"k"`
		Form   string           `json:"form"`
		Dir    []string         `json:"dir"`
		Segs   []string         `json:"segs"`
		Mod    bool             `json:"mod"`
		Target []string         `json:"target"`
		Base   []string         `json:"base"`
		G      json.RawMessage  `json:"g"`
		Start  int              `json:"start"`
		Cyclic bool             `json:"cyclic"`
	} `json:"c"`
}

func init() {
	handlers["imports"] = handleImports
	props["C16"] = func(rc *RunCtx) int {
		rep := NewReport("C16", rc.Tier, rc.Seed, "model_checking")
		rep.Rule = "TLC enumerates (a) every import path of up to MaxSegs segments over {.., ., empty, d, e, x, ' x', 'x '} in both forms (./ and /), from importers at three directory depths, with and without a module sentinel, together with the lexically resolved target (or Reject), and checks on the spec that no target lies outside the base; (b) every import graph on NFiles files with every start file, with its cyclic/acyclic verdict. Paths are compiled through the real compiler on an in-memory file system that has a distinct marker file at every location inside AND outside the root, behind a recording wrapper: every file opened must lie under the base, the value must be the marker at the spec's target (or an error where the spec rejects / the file is absent), and the import must agree with the canonical /-rooted spelling of the same file. Graph files import each other with ./ paths: acyclic graphs must give the computed value, cyclic ones an error, within the worker deadline. (c) executions of the real import cache: for sampled scenarios (graph, failing files, three goroutines with their root files, cycles allowed) the goroutines compile through one shared cache, the hook events of getOrAdd (hit / wait / claim / publish / abandon, emitted under the cache mutex) are recorded and TLC (ImportCacheTrace) checks that some behaviour of the ImportCache spec consumes every event, evaluating TypeOK, SingleFlight and InflightHasOwner in every state. Non-trivial: paths with at least one '..' or a padded segment, graphs with at least two edges."
		rep.Assume = []string{"afero.MemMapFs behaves like a file system for lexically cleaned paths", "whitespace-padded segments: only confinement is required (trimming is not documented)"}
		rep.Exhaust = true
		if rc.Replay == "" {
			checkImportCacheModel(rep)
			validateICTraces(rep, rc)
		}
		runTLCToPool(rep, rc, []*TLCRun{{Module: "Imports", Cfg: tierPick(rc.Tier, "Imports_quick.cfg", "Imports_thorough.cfg")}}, &Pool{Handler: "imports"})
		return rep.Finish()
	}
}

var impDirs = []string{"/", "/o", "/m", "/m/d", "/m/d/e", "/m/o", "/m/d/o"}
var impNames = []string{"x", " x", "x ", "d", "e", "m", "o"}

func buildImportFs(mod bool) (*recFs, map[string]int) {
	mem := afero.NewMemMapFs()
	markers := map[string]int{}
	n := 100
	for _, d := range impDirs {
		mem.MkdirAll(d, 0o755)
		for _, nm := range impNames {
			p := strings.TrimSuffix(d, "/") + "/" + nm + ".arrai"
			n++
			markers[p] = n
			afero.WriteFile(mem, p, []byte(fmt.Sprint(n)), 0o644)
		}
	}
	if mod {
		afero.WriteFile(mem, "/m/go.mod", []byte("module example.com/m\n"), 0o644)
	}
	return &recFs{Fs: mem}, markers
}

func under(base, p string) bool {
	base = strings.TrimSuffix(base, "/")
	return p == base || strings.HasPrefix(p, base+"/")
}

func handleImports(raw json.RawMessage) *Obs {
	var cs impCase
	if err := json.Unmarshal(raw, &cs); err != nil {
		return &Obs{Fails: []Fail{{Sig: Signature{Symptom: "bad-case"}, Detail: err.Error()}}}
	}
	if cs.C.K == "graph" {
		return handleImportGraph(&cs)
	}
	if cs.C.K == "layout" {
		return handleImportLayout(raw)
	}
	c := cs.C
	obs := &Obs{Evals: 1}
	parts := make([]string, len(c.Segs))
	padded, ups := false, false
	for i, s := range c.Segs {
		parts[i] = segName(s)
		if s == "sx" || s == "xs" || s == "sup" || s == "ups" {
			padded = true
		}
		if s == "up" {
			ups = true
		}
	}
	lead := "./"
	if c.Form == "root" {
		lead = "/"
	}
	src := "//{" + lead + strings.Join(parts, "/") + "}"
	dir := "/" + strings.Join(c.Dir, "/")
	base := "/" + strings.Join(c.Base, "/")
	obs.Key = fmt.Sprint(src, dir, c.Mod)
	if ups || padded {
		obs.NonTrivial = 1
	}
	obs.Sample = fmt.Sprintf("%s evaluated as %s/main.arrai (module sentinel at /m: %v); spec target %v", src, dir, c.Mod, c.Target)
	fs, markers := buildImportFs(c.Mod)
	ctx := ctxfs.SourceFsOnto(arraictx.InitRunCtx(context.Background()), fs)
	var o Outcome
	msg, frame, p := catch(func() { o.V, o.Err = syntax.EvaluateExpr(ctx, dir+"/main.arrai", src) })
	if p {
		o = Outcome{Panic: msg, Frame: frame}
	}
	flags := []string{c.Form}
	if c.Mod {
		flags = append(flags, "module")
	} else {
		flags = append(flags, "nomodule")
	}
	if padded {
		flags = append(flags, "padded")
	}
	fail := func(sym, msgc, detail string) {
		obs.Fails = append(obs.Fails, Fail{Sig: Signature{Op: "import-path", Flags: flags, Symptom: sym, Msg: msgc, Frame: o.Frame},
			Detail: fmt.Sprintf("%s in %s/main.arrai (module: %v)\n%s", src, dir, c.Mod, detail), Source: src})
	}
	if o.Kind() == "panic" {
		fail("panic", classifyMsg(o.Panic), o.String())
		return obs
	}
	// confinement: every file that was opened lies under the base
	var outside []string
	for _, op := range fs.Opens {
		if !under(base, op) {
			outside = append(outside, op)
		}
	}
	if len(outside) > 0 {
		sort.Strings(outside)
		fail("escape", "opened-outside-base", fmt.Sprintf("base %s; opened outside it: %q; outcome %s", base, uniq(outside), o.String()))
	}
	// the same path from a script addressed relative to the working directory ("arrai run main.arrai"):
	// the base is then "." and nothing whose cleaned name starts with ".." may be opened
	if !c.Mod && c.Form == "rel" && dir == "/m" {
		mem := afero.NewMemMapFs()
		for _, d := range []string{".", "..", "../..", "d", "o"} {
			for _, nm := range impNames {
				afero.WriteFile(mem, d+"/"+nm+".arrai", []byte("7"), 0o644)
			}
		}
		rfs := &recFs{Fs: mem}
		rctx := ctxfs.SourceFsOnto(arraictx.InitRunCtx(context.Background()), rfs)
		var ro Outcome
		obs.Evals++
		rmsg, rframe, rp := catch(func() { ro.V, ro.Err = syntax.EvaluateExpr(rctx, "main.arrai", src) })
		if rp {
			ro = Outcome{Panic: rmsg, Frame: rframe}
			fail("panic", classifyMsg(rmsg), ro.String())
		}
		var esc []string
		for _, op := range rfs.Opens {
			if cl := strings.TrimSpace(op); strings.HasPrefix(cl, "..") || strings.HasPrefix(cl, "/") {
				esc = append(esc, op)
			}
		}
		if len(esc) > 0 {
			sort.Strings(esc)
			fail("escape", "opened-above-cwd", fmt.Sprintf("script main.arrai in the working directory, no module: opened %q; outcome %s", uniq(esc), ro.String()))
		}
	}
	// value
	rejected := len(c.Target) == 1 && c.Target[0] == "REJECT"
	if padded {
		return obs
	}
	expectErr := rejected
	want := 0
	if !rejected {
		tp := make([]string, len(c.Target))
		for i, s := range c.Target {
			tp[i] = segName(s)
		}
		file := "/" + strings.Join(tp, "/") + ".arrai"
		if len(c.Target) == len(c.Dir) && c.Form == "rel" || c.Form == "root" && len(c.Target) == 1 {
			// the path names the importer's directory / the root itself, not a file: the property only
			// requires confinement here (checked above); what such an import evaluates to is not stated
			return obs
		} else if m, ok := markers[file]; ok {
			want = m
		} else {
			expectErr = true
		}
	}
	switch {
	case expectErr && o.Kind() == "value":
		fail("unexpected-value", "import-should-fail", fmt.Sprintf("the spec resolves this import to %v (no such file / rejected), but it evaluated to %s; opened %q", c.Target, o.String(), fs.Opens))
	case !expectErr && o.Kind() == "error":
		fail("unexpected-error", classifyErr(o.Err.Error()), fmt.Sprintf("expected the marker %d of %v; got %s", want, c.Target, o.String()))
	case !expectErr:
		if n, ok := o.V.(rel.Number); !ok || int(n.Float64()) != want {
			fail("mismatch", "wrong-file", fmt.Sprintf("expected the marker %d of %v; got %s; opened %q", want, c.Target, o.String(), fs.Opens))
		} else {
			// spellings agree: the same file through its canonical rooted spelling, in one evaluation
			if c.Mod {
				canon := "//{/" + strings.Join(c.Target[1:], "/") + "}"
				obs.Evals++
				fs2, _ := buildImportFs(c.Mod)
				ctx2 := ctxfs.SourceFsOnto(arraictx.InitRunCtx(context.Background()), fs2)
				var o2 Outcome
				catch(func() { o2.V, o2.Err = syntax.EvaluateExpr(ctx2, dir+"/main.arrai", "["+src+", "+canon+", "+src+"]") })
				exp := SetOf(Tup(map[string]*AV{"at": Num(0), "it": Num(float64(want))}), Tup(map[string]*AV{"at": Num(1), "it": Num(float64(want))}), Tup(map[string]*AV{"at": Num(2), "it": Num(float64(want))}))
				if d := compare(exp, o2); !d.ok {
					fail("mismatch", "spellings-disagree", "["+src+", "+canon+", "+src+"] -> "+o2.String())
				}
			}
		}
	}
	return obs
}

func handleImportGraph(cs *impCase) *Obs {
	c := cs.C
	var g [][]int
	if err := json.Unmarshal(c.G, &g); err != nil {
		panic(fmt.Sprintf("graph: %v: %s", err, c.G))
	}
	obs := &Obs{Evals: 1, Key: string(c.G) + fmt.Sprint(c.Start)}
	edges := 0
	mem := afero.NewMemMapFs()
	afero.WriteFile(mem, "/m/go.mod", []byte("module example.com/m\n"), 0o644)
	for i, out := range g {
		terms := []string{fmt.Sprint(1 << (4 * uint(i)))}
		for _, j := range out {
			edges++
			if (i+j)%2 == 0 {
				terms = append(terms, fmt.Sprintf("//{./f%d}", j))
			} else {
				terms = append(terms, fmt.Sprintf("//{/sub/../f%d}", j))
			}
		}
		afero.WriteFile(mem, fmt.Sprintf("/m/f%d.arrai", i+1), []byte(strings.Join(terms, " + ")), 0o644)
	}
	if edges >= 2 {
		obs.NonTrivial = 1
	}
	var val func(i int, depth int) float64
	val = func(i int, depth int) float64 {
		v := float64(int(1) << (4 * uint(i-1)))
		if depth > 8 {
			return v
		}
		for _, j := range g[i-1] {
			v += val(j, depth+1)
		}
		return v
	}
	fs := &recFs{Fs: mem}
	ctx := ctxfs.SourceFsOnto(arraictx.InitRunCtx(context.Background()), fs)
	src := fmt.Sprintf("//{./f%d}", c.Start)
	obs.Sample = fmt.Sprintf("graph %s start f%d cyclic=%v", c.G, c.Start, c.Cyclic)
	// one import cache for both evaluations, as a server or an embedding program holds it: the second
	// evaluation must end like the first (a failed import must fail again, not wait for a stale marker)
	ctx = importcache.WithNewImportCache(ctx)
	var o Outcome
	for round := 1; round <= 2; round++ {
		var r Outcome
		done := make(chan struct{})
		go func() {
			msg, frame, p := catch(func() { r.V, r.Err = syntax.EvaluateExpr(ctx, "/m/main.arrai", src) })
			if p {
				r = Outcome{Panic: msg, Frame: frame}
			}
			close(done)
		}()
		select {
		case <-done:
		case <-time.After(20 * time.Second):
			obs.Fails = append(obs.Fails, Fail{Sig: Signature{Op: "import-graph", Symptom: "timeout", Msg: map[bool]string{true: "cyclic", false: "acyclic"}[c.Cyclic] + fmt.Sprintf("-round%d", round)},
				Detail: fmt.Sprintf("import graph %s from f%d (cyclic: %v): evaluation %d through one import cache did not finish within 20 s", c.G, c.Start, c.Cyclic, round)})
			obs.Restart = true
			return obs
		}
		if round == 2 && r.Kind() != o.Kind() {
			obs.Fails = append(obs.Fails, Fail{Sig: Signature{Op: "import-graph", Symptom: "mismatch", Msg: "second-evaluation-differs"},
				Detail: fmt.Sprintf("import graph %s from f%d: first evaluation %s, second evaluation through the same cache %s", c.G, c.Start, o.String(), r.String())})
		}
		if round == 1 {
			o = r
		}
	}
	fail := func(sym, msgc, detail string) {
		obs.Fails = append(obs.Fails, Fail{Sig: Signature{Op: "import-graph", Symptom: sym, Msg: msgc, Frame: o.Frame},
			Detail: fmt.Sprintf("import graph %s evaluated from f%d (cyclic: %v)\n%s", c.G, c.Start, c.Cyclic, detail)})
	}
	switch {
	case o.Kind() == "panic":
		fail("panic", classifyMsg(o.Panic), o.String())
	case c.Cyclic && o.Kind() == "value":
		fail("unexpected-value", "cycle-evaluated", "a cyclic import graph produced the value "+o.String())
	case !c.Cyclic && o.Kind() == "error":
		fail("unexpected-error", classifyErr(o.Err.Error()), o.String())
	case !c.Cyclic:
		if n, ok := o.V.(rel.Number); !ok || n.Float64() != val(c.Start, 0) {
			fail("mismatch", "wrong-value", fmt.Sprintf("expected %v, got %s", val(c.Start, 0), o.String()))
		}
	}
	return obs
}
