package main

// C08: documented source-level equivalences preserve meaning (CoreLang spec).

import (
	"encoding/json"
	"fmt"
	"strings"
)

type clNode struct {
	K  string    `json:"k"`
	N  int       `json:"n"`
	X  string    `json:"x"`
	Op string    `json:"op"`
	I  int       `json:"i"`
	A  *clNode   `json:"a"`
	B  *clNode   `json:"b"`
	C  *clNode   `json:"c"`
	Es []*clNode `json:"es"`
}

const sp = "\x01"  // a token boundary where trivia may go
const spc = "\x02" // the boundary between `cond` and its brace (a known finding: no comment may go there)

// how tightly a node binds when it is an operand (the grammar's level order; the documented part is
// * over + and -, ^ above them and right-associative, unary minus)
func clTight(n *clNode) int {
	switch n.K {
	case "or":
		return 5
	case "and":
		return 6
	case "cmp":
		return 8
	case "bin":
		switch n.Op {
		case "+", "-":
			return 10
		case "*":
			return 12
		}
		return 13
	case "neg":
		return 14
	case "app", "appt":
		return 16
	case "num", "var", "set", "arr", "item", "tup3", "cond", "fail":
		return 20
	}
	return 0 // let, lambda, arrows: they extend as far to the right as they can
}

type clMode int

const (
	clMinimal clMode = iota
	clFull
)

func (n *clNode) operand(m clMode, parent int, rightSide bool, rightAssoc bool) string {
	s := n.render(m)
	t := clTight(n)
	need := false
	switch {
	case m == clFull:
		need = t < 20
	case t == 0:
		need = true
	case t < parent:
		need = true
	case t == parent:
		if parent == 8 {
			need = true // comparisons chain: a < b < c is not (a < b) < c
		} else {
			need = rightSide != rightAssoc
		}
	}
	if need {
		return "(" + s + ")"
	}
	return s
}

func (n *clNode) seq(m clMode) string {
	var ps []string
	for _, e := range n.Es {
		ps = append(ps, e.render(m))
	}
	return strings.Join(ps, ","+sp)
}

const clPat = "(p: a, q: b, r: c)"

func (n *clNode) render(m clMode) string {
	switch n.K {
	case "num":
		return fmt.Sprint(n.N)
	case "var":
		return n.X
	case "let":
		return "let" + sp + n.X + sp + "=" + sp + n.A.render(m) + ";" + sp + n.B.render(m)
	case "lett":
		return "let" + sp + clPat + sp + "=" + sp + n.A.render(m) + ";" + sp + n.B.render(m)
	case "lam":
		return `\` + n.X + sp + n.A.render(m)
	case "app":
		f := n.A.render(m)
		if n.A.K != "var" {
			f = "(" + f + ")"
		}
		return f + "(" + n.B.render(m) + ")"
	case "appt":
		return `(\` + clPat + sp + n.B.render(m) + ")(" + n.A.render(m) + ")"
	case "arrow", "arrowt":
		// e1 -> \p e2 is its own form: e2 sits one level below the arrows, so an arrow in it needs parentheses
		body := n.B.render(m)
		switch n.B.K {
		case "arrow", "arrowt", "mapd", "mapx", "whered", "wherex":
			body = "(" + body + ")"
		default:
			if m == clFull && clTight(n.B) < 20 {
				body = "(" + body + ")"
			}
		}
		pat := n.X
		if n.K == "arrowt" {
			pat = clPat
		}
		return n.A.operand(m, 1, false, false) + sp + "->" + sp + `\` + pat + sp + body
	case "bin":
		p := clTight(n)
		ra := n.Op == "^"
		return n.A.operand(m, p, false, ra) + sp + n.Op + sp + n.B.operand(m, p, true, ra)
	case "cmp":
		return n.A.operand(m, 8, false, false) + sp + n.Op + sp + n.B.operand(m, 8, true, false)
	case "and":
		return n.A.operand(m, 6, false, false) + sp + "&&" + sp + n.B.operand(m, 6, true, false)
	case "or":
		return n.A.operand(m, 5, false, false) + sp + "||" + sp + n.B.operand(m, 5, true, false)
	case "neg":
		return "-" + n.A.operand(m, 14, true, true)
	case "set":
		return "{" + n.seq(m) + "}"
	case "arr":
		return "[" + n.seq(m) + "]"
	case "tup3":
		return "(p: " + n.Es[0].render(m) + "," + sp + "q: " + n.Es[1].render(m) + "," + sp + "r: " + n.Es[2].render(m) + ")"
	case "item":
		return fmt.Sprintf("(@: %d,%s@item: %s)", n.I, sp, n.A.render(m))
	case "mapd", "whered", "mapx", "wherex":
		op := "=>"
		if strings.HasPrefix(n.K, "where") {
			op = "where"
		}
		lhs := n.A.render(m)
		// the left operand of an arrow: an explicit lambda on its right end would swallow this arrow
		if m == clFull || clTight(n.A) == 0 && n.A.K != "mapd" && n.A.K != "whered" {
			if clTight(n.A) < 20 {
				lhs = "(" + lhs + ")"
			}
		}
		body := n.B.render(m)
		if m == clFull && clTight(n.B) < 20 || clTight(n.B) == 0 {
			body = "(" + body + ")"
		}
		if strings.HasSuffix(n.K, "x") {
			return lhs + sp + op + sp + `\` + n.X + sp + body
		}
		return lhs + sp + op + sp + body
	case "cond":
		return "cond" + spc + "{" + n.C.render(m) + ":" + sp + n.A.render(m) + "," + sp + "_:" + sp + n.B.render(m) + "}"
	case "fail":
		return `(\z z(1))(1)`
	}
	panic("unknown node " + n.K)
}

func clRenderings(n *clNode) map[string]string {
	plain := func(s string) string { return strings.ReplaceAll(strings.ReplaceAll(s, sp, " "), spc, " ") }
	min := n.render(clMinimal)
	out := map[string]string{
		"minimal": plain(min),
		"full":    plain(n.render(clFull)),
		"trivia":  strings.ReplaceAll(strings.ReplaceAll(min, sp, "  # note\n\t "), spc, " "),
	}
	if strings.Contains(min, spc) {
		out["trivia-cond"] = strings.ReplaceAll(strings.ReplaceAll(min, sp, " "), spc, " # note\n ")
	}
	return out
}

func clPlain(s string) string { return strings.ReplaceAll(strings.ReplaceAll(s, sp, " "), spc, " ") }

func handleCoreLang(raw json.RawMessage) *Obs {
	var c struct {
		Rule string          `json:"rule"`
		A0   clNode          `json:"a0"`
		A1   clNode          `json:"a1"`
		Val  json.RawMessage `json:"val"`
	}
	if err := json.Unmarshal(raw, &c); err != nil {
		return &Obs{Fails: []Fail{{Sig: Signature{Symptom: "bad-case"}, Detail: err.Error()}}}
	}
	wantErr := strings.Contains(string(c.Val), `"err"`)
	var want *AV
	if !wantErr {
		want = MustParseAV(c.Val)
	}
	obs := &Obs{NonTrivial: 1}
	sides := []struct {
		name string
		n    *clNode
	}{{"original", &c.A0}}
	if c.Rule != "render" {
		sides = append(sides, struct {
			name string
			n    *clNode
		}{"rewritten", &c.A1})
	}
	obs.Sample = fmt.Sprintf("%s: %s", c.Rule, clPlain(c.A0.render(clMinimal)))
	for _, side := range sides {
		for mode, src := range clRenderings(side.n) {
			obs.Evals++
			o := evalSource(src)
			fail := func(symptom, msg, detail string) {
				obs.Fails = append(obs.Fails, Fail{Sig: Signature{Op: c.Rule, ShapeL: side.name, ShapeR: mode, Symptom: symptom, Msg: msg, Frame: o.Frame},
					Detail: fmt.Sprintf("original : %s\n%s (%s): %s\nspec value: %s\n%s", clPlain(c.A0.render(clMinimal)), side.name, mode, src, trunc(string(c.Val), 200), detail), Source: src})
			}
			switch {
			case o.Kind() == "panic":
				fail("panic", classifyMsg(o.Panic), trunc(o.Panic, 200))
			case wantErr:
				if o.Kind() == "value" {
					fail("unexpected-value", "should-fail", "the program must fail; this form evaluates to "+trunc(reprSafe(o.V), 200))
				}
			case o.Kind() == "error":
				fail("unexpected-error", "should-succeed", "this form fails: "+trunc(safeSprint(o.Err), 200))
			default:
				if d := compare(want, o); !d.ok {
					fail(d.symptom, "differs", "this form evaluates to "+trunc(reprSafe(o.V), 200)+"\n"+d.detail)
				}
			}
		}
	}
	return obs
}

func init() {
	handlers["corelang"] = handleCoreLang
	props["C08"] = func(rc *RunCtx) int {
		rep := NewReport("C08", rc.Tier, rc.Seed, "model_checking")
		rep.Rule = "TLC enumerates seed programs of the CoreLang spec in four families (arithmetic: every nesting of two of + - * ^ and unary minus over three atoms; binding: let, shadowing, closures capturing and shadowed, tuple-pattern let, ->; collections: array literals incl. nested, => and where with the implicit binder incl. nested binders; control: cond / && / || over true, false and falsy values) and every single rewrite of each at every position: LetToArrow, LetToCall, ArrowToLet, Desugar (array literal = set of item tuples), ExplicitBinder, InlineLet (capture-avoiding), DeadBranch (the unselected branch replaced by a failing expression); TLC checks Preserved (the reference evaluator Ev gives the same value for both sides) on every state. Both sides are rendered three ways (four with cond) - minimal parentheses relying on the documented precedence and associativity table, fully parenthesised, with comments and whitespace between all tokens (the boundary after the keyword cond separately) - compiled and evaluated by the real compiler, and compared with Ev's value (or its failure)."
		rep.Assume = []string{"the precedence table is the documented arithmetic one (* over + -, ^ above and right-associative, unary minus tighter) plus the level order of syntax/arrai.wbnf for && || and comparisons", "programs whose reference value leaves small integers (overflow, fractions) or is a function are not emitted"}
		var runs []*TLCRun
		for _, m := range []string{"arith", "binding", "collections", "control"} {
			runs = append(runs, &TLCRun{Module: "CoreLang", Cfg: "CoreLang_" + m + ".cfg", Timeout: 30 * 60e9})
		}
		runTLCToPool(rep, rc, runs, &Pool{Handler: "corelang"})
		return rep.Finish()
	}
}
