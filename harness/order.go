package main

// C06: observe the order on a universe of values and validate the axioms in TLC (OrderObs).

import (
	"encoding/json"
	"fmt"
	"math/rand"
	"os"
	"path/filepath"
	"strings"
	"time"

	"github.com/arr-ai/arrai/rel"
)

type orderUniverse struct {
	U []json.RawMessage `json:"u"`
}

func init() {
	handlers["order-observe"] = handleOrderObserve
	props["C06"] = func(rc *RunCtx) int {
		rep := NewReport("C06", rc.Tier, rc.Seed, "model_checking")
		rep.Rule = "TLC emits a universe of values drawn across every kind and representation (numbers, generic / @neg / sugar tuples, empty, true, number sets, strings incl. offset and holes, arrays incl. offset and sparse, byte arrays, dicts incl. a multi-valued key, relations over different headings, mixed and nested sets); the real evaluator is asked a < b, a <= b, a > b, a >= b, a = b for ALL ordered pairs (values realised by hash-chosen recipes) and orderby / max / min / printed member order for seeded subsets; TLC (OrderObs) then checks irreflexivity, trichotomy, = is identity of denotation, transitivity over all triples, derived relations and sortedness on the observed matrices, printing every violated instance. The order itself is never assumed. Non-trivial: every ordered pair of distinct values."
		rep.Assume = []string{"distinct members of the universe are distinct denotations (it is a TLA+ set)"}
		lines, wait := (&TLCRun{Module: "ValueOrder", Cfg: tierPick(rc.Tier, "ValueOrder_quick.cfg", "ValueOrder_thorough.cfg"), Workers: 1}).Start()
		var universe []byte
		for l := range lines {
			universe = l
		}
		st := wait()
		st.RequireClean("ValueOrder")
		rep.TLC = append(rep.TLC, st)
		if universe == nil {
			infraFail("ValueOrder emitted no universe")
		}
		// observe in a worker (a panic in Less must not take the run down)
		cases := make(chan []byte, 1)
		cases <- universe
		close(cases)
		var obsLines []string
		var uni orderUniverse
		json.Unmarshal(universe, &uni)
		(&Pool{Handler: "order-observe", N: 1, Timeout: 10 * time.Minute}).Run(cases, func(c []byte, o *Obs) {
			rep.Add([]byte(`{"universe":"see samples"}`), o)
			obsLines = o.Data
		})
		if len(obsLines) == 0 {
			return rep.Finish()
		}
		path := filepath.Join(verifRoot, ".work", fmt.Sprintf("order-obs-%d.ndjson", os.Getpid()))
		must(os.WriteFile(path, []byte(strings.Join(obsLines, "\n")+"\n"), 0o644))
		vlines, vwait := (&TLCRun{Module: "OrderObs", Cfg: "OrderObs.cfg", Workers: 1, Heap: "12g", Timeout: 40 * time.Minute, ExtraFiles: map[string]string{path: "obs.ndjson"}}).Start()
		n := len(uni.U)
		vals := make([]*AV, n)
		for i, r := range uni.U {
			vals[i] = MustParseAV(r)
		}
		var sorts []map[string]interface{}
		for _, l := range obsLines {
			if strings.Contains(l, `"k":"sort"`) {
				var m map[string]interface{}
				json.Unmarshal([]byte(l), &m)
				sorts = append(sorts, m)
			}
		}
		for l := range vlines {
			var v struct {
				Spec string `json:"spec"`
				V    struct {
					Ax      string `json:"ax"`
					I, J, M int
				} `json:"v"`
			}
			if json.Unmarshal(l, &v) != nil || v.Spec != "OrderObsViol" {
				continue
			}
			detail := ""
			var sh []*AV
			switch {
			case strings.HasPrefix(v.V.Ax, "sort:"):
				detail = fmt.Sprintf("%v", sorts[v.V.I-1])
			case v.V.Ax == "transitive":
				a, b, c := vals[v.V.I-1], vals[v.V.J-1], vals[v.V.M-1]
				detail = fmt.Sprintf("a < b and b < c hold but a < c does not: a = %s ; b = %s ; c = %s", a.RenderSugar(), b.RenderSugar(), c.RenderSugar())
				sh = []*AV{a, b, c}
			default:
				a, b := vals[v.V.I-1], vals[v.V.J-1]
				detail = fmt.Sprintf("a = %s ; b = %s", a.RenderSugar(), b.RenderSugar())
				sh = []*AV{a, b}
			}
			sig := Signature{Op: v.V.Ax, Symptom: "axiom"}
			if len(sh) > 0 {
				sig.ShapeL = orderClass(sh[0])
				sig.ShapeR = orderClass(sh[1])
				if len(sh) > 2 {
					sig.Step = orderClass(sh[2])
				}
			}
			rep.AddFail(fmt.Sprintf(`{"axiom":%q,"i":%d,"j":%d,"m":%d}`, v.V.Ax, v.V.I, v.V.J, v.V.M), Fail{Sig: sig, Detail: v.V.Ax + ": " + detail})
		}
		vst := vwait()
		os.Remove(path)
		vst.RequireClean("OrderObs")
		rep.TLC = append(rep.TLC, vst)
		rep.Extra["universe_size"] = n
		rep.Extra["pairs_observed"] = n * n
		rep.Extra["triples_checked"] = n * n * n
		rep.Traces = int64(n * n)
		return rep.Finish()
	}
}

// orderClass is the representation class used in signatures of order findings.
func orderClass(a *AV) string {
	sh := a.Shape()
	c := sh.Class
	if a.K == 't' {
		if seqKind(a) != "" {
			return "tuple:" + seqKind(a)
		}
		if _, ok := a.T["neg"]; ok && len(a.T) == 1 {
			return "tuple:neg"
		}
		return "tuple"
	}
	if i := strings.IndexByte(c, '/'); i >= 0 {
		c = c[:i]
	}
	for _, f := range sh.Flags() {
		if f == "offset" || f == "holes" || f == "multidict" {
			c += "+" + f
		}
	}
	return c
}

func handleOrderObserve(raw json.RawMessage) *Obs {
	var uni orderUniverse
	if err := json.Unmarshal(raw, &uni); err != nil {
		return &Obs{Fails: []Fail{{Sig: Signature{Symptom: "bad-case"}, Detail: err.Error()}}}
	}
	obs := &Obs{NonTrivial: 1}
	n := len(uni.U)
	avs := make([]*AV, n)
	vals := make([]rel.Value, n)
	srcs := make([]string, n)
	ctx := &saCtx{mode: "c06", obs: obs}
	for i, r := range uni.U {
		avs[i] = MustParseAV(r)
		rs := ctx.realiseAll(avs[i])
		if len(rs) == 0 {
			obs.Fails = append(obs.Fails, Fail{Sig: Signature{Op: "realise", ShapeL: orderClass(avs[i]), Symptom: "unrealisable"}, Detail: "no recipe builds " + avs[i].Render()})
			var v rel.Value
			catch(func() { v = avs[i].Build() })
			vals[i], srcs[i] = v, avs[i].Render()
			continue
		}
		r0 := rs[hashOf(verifSeed, i)%uint64(len(rs))]
		vals[i], srcs[i] = r0.v, r0.src
	}
	if dbg := os.Getenv("VERIF_C06_DEBUG"); dbg != "" {
		for _, f := range strings.Split(dbg, ",") {
			var k int
			fmt.Sscan(f, &k)
			if k >= 1 && k <= n {
				fmt.Fprintf(os.Stderr, "UNIVERSE %d: %s   [%T]  spec %s\n", k, srcs[k-1], vals[k-1], avs[k-1].Render())
			}
		}
	}
	index := map[string]int{}
	for i, a := range avs {
		index[a.Canon()] = i + 1
	}
	ops := []struct{ key, src string }{{"lt", "a < b"}, {"le", "a <= b"}, {"gt", "a > b"}, {"ge", "a >= b"}, {"eq", "a = b"}}
	var data []string
	for i := 0; i < n; i++ {
		row := map[string]interface{}{"k": "row", "i": i + 1}
		for _, op := range ops {
			bs := make([]bool, n)
			for j := 0; j < n; j++ {
				obs.Evals++
				o := evalTemplate(op.src, map[string]rel.Value{"a": vals[i], "b": vals[j]})
				if o.Kind() != "value" {
					d := compare(EmptyAV, o)
					if o.Kind() == "error" {
						d = diffInfo{symptom: "unexpected-error", msg: classifyErr(o.Err.Error()), detail: o.String()}
					}
					obs.Fails = append(obs.Fails, Fail{Sig: Signature{Op: op.key, ShapeL: orderClass(avs[i]), ShapeR: orderClass(avs[j]), Symptom: d.symptom, Msg: d.msg, Frame: d.frame},
						Detail: fmt.Sprintf("let a = %s; let b = %s; %s\n%s", srcs[i], srcs[j], op.src, d.detail)})
					continue
				}
				bs[j] = o.V.IsTrue()
			}
			row[op.key] = bs
		}
		data = append(data, string(mustJSON(row)))
	}
	// sorts over seeded subsets
	rng := rand.New(rand.NewSource(verifSeed + 77))
	nsub := tierPick(verifTier, 150, 1500)
	toIdx := func(v rel.Value) int {
		var a *AV
		if _, _, p := catch(func() { a, _ = Denote(v) }); p {
			return -1
		}
		return index[a.Canon()]
	}
	for s := 0; s < nsub; s++ {
		k := 2 + rng.Intn(5)
		members := rng.Perm(n)[:k]
		set := rel.None
		ok := true
		var mem []int
		for _, m := range members {
			if vals[m] == nil {
				ok = false
				break
			}
			catch(func() { set = set.With(vals[m]) })
			mem = append(mem, m+1)
		}
		if !ok {
			continue
		}
		// two members that sit at one index of a string / array / byte array (or one key of a dict) cannot
		// live in one set (the recorded finding KF-superimposed, C01's business): such a subset is no sort input
		var mavs []*AV
		for _, m := range members {
			mavs = append(mavs, avs[m])
		}
		if contains(SetOf(mavs...).Shape().Flags(), "superimposed") {
			obs.Notes = append(obs.Notes, "subset-skipped-superimposed")
			continue
		}
		record := func(what string, seq []int) {
			data = append(data, string(mustJSON(map[string]interface{}{"k": "sort", "what": what, "members": mem, "result": seq})))
		}
		// orderby
		obs.Evals++
		o := evalTemplate("s orderby .", map[string]rel.Value{"s": set})
		if o.Kind() == "value" {
			var seq []int
			if arr, is := o.V.(rel.Array); is {
				for _, it := range arr.Values() {
					seq = append(seq, toIdx(it))
				}
			}
			record("orderby", seq)
		} else {
			obs.Fails = append(obs.Fails, Fail{Sig: Signature{Op: "orderby", Symptom: o.Kind(), Msg: classifyMsg(o.String()), Frame: o.Frame}, Detail: fmt.Sprintf("(%s) orderby . -> %s", reprSafe(set), o.String())})
		}
		// printed order
		if os, is := set.(rel.OrderableSet); is {
			var seq []int
			if _, _, p := catch(func() {
				for e := os.OrderedValues(); e.MoveNext(); {
					seq = append(seq, toIdx(e.Current()))
				}
			}); !p {
				record("printed", seq)
			}
		}
		// max / min are the extrema: record as [others..., max] / [min, others...]
		for _, mm := range []string{"max", "min"} {
			obs.Evals++
			o := evalTemplate("s "+mm+" .", map[string]rel.Value{"s": set})
			if o.Kind() != "value" {
				obs.Fails = append(obs.Fails, Fail{Sig: Signature{Op: mm, Symptom: o.Kind(), Msg: classifyMsg(o.String()), Frame: o.Frame}, Detail: fmt.Sprintf("(%s) %s . -> %s", reprSafe(set), mm, o.String())})
				continue
			}
			x := toIdx(o.V)
			var seq []int
			for _, m := range mem {
				if m != x {
					seq = append(seq, m)
				}
			}
			if mm == "max" {
				// every other member must not be greater than the max: check pairwise by placing max last
				for _, m := range seq {
					data = append(data, string(mustJSON(map[string]interface{}{"k": "sort", "what": "max", "members": []int{m, x}, "result": []int{m, x}})))
				}
			} else {
				for _, m := range seq {
					data = append(data, string(mustJSON(map[string]interface{}{"k": "sort", "what": "min", "members": []int{m, x}, "result": []int{x, m}})))
				}
			}
		}
	}
	obs.Data = data
	obs.Sample = fmt.Sprintf("universe of %d values, e.g. %s ; %s ; %s", n, srcs[0], srcs[n/2], srcs[n-1])
	return obs
}
